#![no_main]
// One libFuzzer target for all sub-checks: byte 0 selects the sub-check (restricted to one
// property by RTAVERIF_FUZZ_ONLY), the rest drives its proptest strategy (pass-through RNG).
use libfuzzer_sys::fuzz_target;

fuzz_target!(|data: &[u8]| {
    rtaverif::fuzz::fuzz_entry(data);
});

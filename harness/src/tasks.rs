//! Task-set specs and the nine dedicated-processor analyses behind one call.

use std::rc::Rc;

use proptest::prelude::*;
use response_time_analysis::demand::{self, RequestBound, RBF};
use response_time_analysis::fixed_point::{SearchFailure, SearchResult};
use response_time_analysis::wcet::Scalar;
use response_time_analysis::{edf, fifo, fixed_priority as fp};
use serde::{Deserialize, Serialize};

use crate::arr::*;
use crate::supply_ref::{d, du, s};

#[derive(Clone, Debug, Serialize, Deserialize, PartialEq, Eq, Hash)]
pub struct TaskSpec {
    pub arr: ArrSpec,
    pub wcet: u64,
    /// numerically smaller = higher priority; equal priorities interfere with each other
    pub prio: u32,
    pub deadline: u64,
    /// non-preemptive segments (sum = wcet); the last one is the "last segment"
    pub segs: Vec<u64>,
    /// maximum length of a floating non-preemptive region (1..=wcet)
    pub max_np: u64,
}

impl TaskSpec {
    pub fn last_seg(&self) -> u64 {
        *self.segs.last().unwrap()
    }
    pub fn max_seg(&self) -> u64 {
        *self.segs.iter().max().unwrap()
    }
}

#[derive(Clone, Copy, Debug, Serialize, Deserialize, PartialEq, Eq, Hash)]
pub enum Analysis {
    FpP,
    FpNp,
    FpLp,
    FpFl,
    EdfP,
    EdfNp,
    EdfLp,
    EdfFl,
    Fifo,
}

pub const ALL_ANALYSES: [Analysis; 9] = [
    Analysis::FpP,
    Analysis::FpNp,
    Analysis::FpLp,
    Analysis::FpFl,
    Analysis::EdfP,
    Analysis::EdfNp,
    Analysis::EdfLp,
    Analysis::EdfFl,
    Analysis::Fifo,
];

impl Analysis {
    pub fn is_fp(self) -> bool {
        matches!(self, Analysis::FpP | Analysis::FpNp | Analysis::FpLp | Analysis::FpFl)
    }
    pub fn is_edf(self) -> bool {
        matches!(self, Analysis::EdfP | Analysis::EdfNp | Analysis::EdfLp | Analysis::EdfFl)
    }
    pub fn name(self) -> &'static str {
        match self {
            Analysis::FpP => "fp-preemptive",
            Analysis::FpNp => "fp-nonpreemptive",
            Analysis::FpLp => "fp-limited-preemptive",
            Analysis::FpFl => "fp-floating-np",
            Analysis::EdfP => "edf-preemptive",
            Analysis::EdfNp => "edf-nonpreemptive",
            Analysis::EdfLp => "edf-limited-preemptive",
            Analysis::EdfFl => "edf-floating-np",
            Analysis::Fifo => "fifo",
        }
    }
    /// length of the longest non-preemptive segment of a task under this analysis' preemption model
    pub fn np_len(self, t: &TaskSpec) -> u64 {
        match self {
            Analysis::FpP | Analysis::EdfP => 1,
            Analysis::FpNp | Analysis::EdfNp | Analysis::Fifo => t.wcet,
            Analysis::FpLp | Analysis::EdfLp => t.max_seg(),
            Analysis::FpFl | Analysis::EdfFl => t.max_np,
        }
    }
}

/// How the RBFs are handed to the analyses (exercises the blanket impls).
#[derive(Clone, Copy, Debug, Serialize, Deserialize, PartialEq, Eq, Hash)]
pub enum Wrap {
    Plain,
    Boxed,
    Refs,
}

/// normalised result: Ok(r) or Err((offset, limit)) / Err for other failures
#[derive(Clone, Debug, PartialEq, Eq, Serialize, Deserialize)]
pub enum Res {
    Ok(u64),
    Diverged { offset: u64, limit: u64 },
    Other(String),
}

impl Res {
    pub fn from(r: SearchResult) -> Res {
        match r {
            Ok(x) => Res::Ok(du(x)),
            Err(SearchFailure::DivergenceLimitExceeded { offset, limit }) => Res::Diverged {
                offset: du(offset.since_time_zero()),
                limit: du(limit),
            },
            Err(e) => Res::Other(format!("{:?}", e)),
        }
    }
    pub fn ok(&self) -> Option<u64> {
        match self {
            Res::Ok(x) => Some(*x),
            _ => None,
        }
    }
    pub fn is_err(&self) -> bool {
        !matches!(self, Res::Ok(_))
    }
}

pub type TaskRbf = RBF<Ab, Scalar>;

pub struct Built {
    pub arrs: Vec<Ab>,
    pub rbfs: Vec<TaskRbf>,
}

pub fn build_tasks(ts: &[TaskSpec]) -> Built {
    let arrs: Vec<Ab> = ts.iter().map(|t| t.arr.build()).collect();
    let rbfs = ts
        .iter()
        .zip(arrs.iter())
        .map(|(t, a)| RBF::new(a.clone(), Scalar::new(s(t.wcet))))
        .collect();
    Built { arrs, rbfs }
}

/// blocking bound as the property prescribes: longest lower-priority non-preemptive segment minus one
pub fn fp_blocking(ts: &[TaskSpec], tua: usize, an: Analysis) -> u64 {
    ts.iter()
        .enumerate()
        .filter(|(i, t)| *i != tua && t.prio > ts[tua].prio)
        .map(|(_, t)| an.np_len(t))
        .max()
        .unwrap_or(0)
        .saturating_sub(1)
}

/// Run one analysis.  `blocking`: for FP analyses with a blocking parameter, None = as prescribed.
/// May panic inside the crate: call under `guard`.
pub fn run_analysis(ts: &[TaskSpec], b: &Built, an: Analysis, tua: usize, limit: u64, blocking: Option<u64>, wrap: Wrap) -> SearchResult {
    let limit = d(limit);
    let t = &ts[tua];
    match an {
        Analysis::FpP | Analysis::FpNp | Analysis::FpLp | Analysis::FpFl => {
            let hep_idx: Vec<usize> = (0..ts.len()).filter(|i| *i != tua && ts[*i].prio <= t.prio).collect();
            let blk = s(blocking.unwrap_or_else(|| fp_blocking(ts, tua, an)));
            macro_rules! call {
                ($hep:expr) => {
                    match an {
                        Analysis::FpP => fp::fully_preemptive::dedicated_uniproc_rta(&b.rbfs[tua], $hep, limit),
                        Analysis::FpNp => fp::fully_nonpreemptive::dedicated_uniproc_rta(
                            &fp::fully_nonpreemptive::TaskUnderAnalysis { wcet: Scalar::new(s(t.wcet)), arrivals: &b.arrs[tua], blocking_bound: blk },
                            $hep,
                            limit,
                        ),
                        Analysis::FpLp => fp::limited_preemptive::dedicated_uniproc_rta(
                            &fp::limited_preemptive::TaskUnderAnalysis {
                                wcet: Scalar::new(s(t.wcet)),
                                arrivals: &b.arrs[tua],
                                last_np_segment: s(t.last_seg()),
                                blocking_bound: blk,
                            },
                            $hep,
                            limit,
                        ),
                        Analysis::FpFl => fp::floating_nonpreemptive::dedicated_uniproc_rta(
                            &fp::floating_nonpreemptive::TaskUnderAnalysis { rbf: &b.rbfs[tua], blocking_bound: blk },
                            $hep,
                            limit,
                        ),
                        _ => unreachable!(),
                    }
                };
            }
            match wrap {
                Wrap::Plain => {
                    let hep: Vec<TaskRbf> = hep_idx.iter().map(|i| b.rbfs[*i].clone()).collect();
                    call!(&hep[..])
                }
                Wrap::Boxed => {
                    let hep: Vec<Box<dyn RequestBound>> = hep_idx.iter().map(|i| Box::new(b.rbfs[*i].clone()) as Box<dyn RequestBound>).collect();
                    call!(&hep[..])
                }
                Wrap::Refs => {
                    let hep: Vec<&TaskRbf> = hep_idx.iter().map(|i| &b.rbfs[*i]).collect();
                    call!(&hep[..])
                }
            }
        }
        Analysis::EdfP => {
            let others: Vec<edf::fully_preemptive::Task<TaskRbf>> = (0..ts.len())
                .filter(|i| *i != tua)
                .map(|i| edf::fully_preemptive::Task { rbf: &b.rbfs[i], deadline: d(ts[i].deadline) })
                .collect();
            edf::fully_preemptive::dedicated_uniproc_rta(&edf::fully_preemptive::Task { rbf: &b.rbfs[tua], deadline: d(t.deadline) }, &others[..], limit)
        }
        Analysis::EdfNp => {
            let others: Vec<edf::fully_nonpreemptive::Task<Ab>> = (0..ts.len())
                .filter(|i| *i != tua)
                .map(|i| edf::fully_nonpreemptive::Task { wcet: Scalar::new(s(ts[i].wcet)), arrivals: &b.arrs[i], deadline: d(ts[i].deadline) })
                .collect();
            edf::fully_nonpreemptive::dedicated_uniproc_rta(
                &edf::fully_nonpreemptive::Task { wcet: Scalar::new(s(t.wcet)), arrivals: &b.arrs[tua], deadline: d(t.deadline) },
                &others[..],
                limit,
            )
        }
        Analysis::EdfLp => {
            let others: Vec<edf::limited_preemptive::InterferingTask<TaskRbf>> = (0..ts.len())
                .filter(|i| *i != tua)
                .map(|i| edf::limited_preemptive::InterferingTask { rbf: &b.rbfs[i], deadline: d(ts[i].deadline), max_np_segment: s(ts[i].max_seg()) })
                .collect();
            edf::limited_preemptive::dedicated_uniproc_rta(
                &edf::limited_preemptive::TaskUnderAnalysis {
                    wcet: Scalar::new(s(t.wcet)),
                    arrivals: &b.arrs[tua],
                    deadline: d(t.deadline),
                    last_np_segment: s(t.last_seg()),
                },
                &others[..],
                limit,
            )
        }
        Analysis::EdfFl => {
            let others: Vec<edf::floating_nonpreemptive::InterferingTask<TaskRbf>> = (0..ts.len())
                .filter(|i| *i != tua)
                .map(|i| edf::floating_nonpreemptive::InterferingTask { rbf: &b.rbfs[i], deadline: d(ts[i].deadline), max_np_segment: s(ts[i].max_np) })
                .collect();
            edf::floating_nonpreemptive::dedicated_uniproc_rta(
                &edf::floating_nonpreemptive::TaskUnderAnalysis { rbf: &b.rbfs[tua], deadline: d(t.deadline) },
                &others[..],
                limit,
            )
        }
        Analysis::Fifo => match wrap {
            Wrap::Plain => fifo::dedicated_uniproc_rta(&demand::Slice::of(&b.rbfs[..]), limit),
            Wrap::Boxed => fifo::dedicated_uniproc_rta(&demand::Aggregate::new(b.rbfs.clone()), limit),
            Wrap::Refs => {
                let boxed: Vec<Rc<dyn RequestBound>> = b.rbfs.iter().map(|r| Rc::new(r.clone()) as Rc<dyn RequestBound>).collect();
                fifo::dedicated_uniproc_rta(&demand::Aggregate::new(boxed), limit)
            }
        },
    }
}

// ---------------------------------------------------------------------------
// strategies

#[derive(Clone, Copy, Debug)]
pub struct TaskGen {
    pub arr: ArrGen,
    pub cmax: u64,
    pub nmax: usize,
    /// relative deadlines up to dfac * period scale
    pub dfac: u64,
}

/// split wcet into segments using a pick vector
pub fn split_segments(wcet: u64, picks: &[u8]) -> Vec<u64> {
    let mut segs = vec![];
    let mut rem = wcet;
    let mut i = 0;
    while rem > 0 {
        let p = if picks.is_empty() { 255 } else { picks[i % picks.len()] } as u64;
        i += 1;
        let x = 1 + p % rem;
        segs.push(x);
        rem -= x;
    }
    segs
}

pub fn task_strategy(g: TaskGen, nprio: u32) -> BoxedStrategy<TaskSpec> {
    (
        arr_strategy(g.arr),
        1..=g.cmax,
        0..nprio,
        1u64..=1000,
        proptest::collection::vec(any::<u8>(), 0..4),
        1u64..=1000,
    )
        .prop_map(move |(arr, wcet, prio, dsel, picks, npsel)| {
            let scale = match &arr {
                ArrSpec::Periodic { t } | ArrSpec::Sporadic { t, .. } => *t,
                other => other.scale(),
            }
            .max(2);
            let deadline = 1 + dsel * (g.dfac * scale) / 1000;
            let segs = split_segments(wcet, &picks);
            let max_np = 1 + npsel % wcet;
            TaskSpec { arr, wcet, prio, deadline, segs, max_np }
        })
        .boxed()
}

/// long-run arrival rate (jobs per time unit) implied by a spec
pub fn rate_of(a: &ArrSpec) -> f64 {
    match a {
        ArrSpec::Never => 0.0,
        ArrSpec::Periodic { t } | ArrSpec::Sporadic { t, .. } | ArrSpec::CurveFromPeriodic { t } | ArrSpec::CurveFromSporadic { t, .. } => 1.0 / *t as f64,
        ArrSpec::Curve { dmin, .. } | ArrSpec::AcpDirect { dmin, .. } => {
            let l = *dmin.last().unwrap() as f64;
            let jobs = 1 + dmin.iter().filter(|x| (**x as f64) < l).count();
            jobs as f64 / l.max(1.0)
        }
        ArrSpec::Jittered { inner, .. }
        | ArrSpec::Propagated { inner, .. }
        | ArrSpec::CurveOfJobs { inner, .. }
        | ArrSpec::CurveOfUntil { inner, .. }
        | ArrSpec::AcpOf { inner, .. }
        | ArrSpec::CurveFromAcp { inner } => rate_of(inner),
        ArrSpec::Sum { a, b } => rate_of(a) + rate_of(b),
        ArrSpec::VecOf { items } | ArrSpec::SliceOf { items } => items.iter().map(rate_of).sum(),
        ArrSpec::FromTrace { trace, .. } => trace.len() as f64 / (trace.last().copied().unwrap_or(1).max(1)) as f64,
        ArrSpec::Poisson { rate_milli, .. } => *rate_milli as f64 / 1000.0,
        ArrSpec::CurveFromIter { vals, extrapolating } => rate_of(&ArrSpec::Curve { dmin: running_max(vals), extrapolating: *extrapolating }),
    }
}

/// shrink WCETs so that the estimated utilisation does not exceed `target`
pub fn steer_utilisation(tasks: &mut [TaskSpec], target: f64) {
    let u: f64 = tasks.iter().map(|t| t.wcet as f64 * rate_of(&t.arr)).sum();
    if u <= target || u == 0.0 {
        return;
    }
    let f = target / u;
    for t in tasks.iter_mut() {
        let w = ((t.wcet as f64 * f).floor() as u64).max(1);
        if w < t.wcet {
            t.wcet = w;
            // keep the segment vector and the floating-region length consistent with the new WCET
            let mut rem = w;
            let mut segs = vec![];
            for sgl in &t.segs {
                if rem == 0 {
                    break;
                }
                let x = (*sgl).min(rem);
                segs.push(x);
                rem -= x;
            }
            if rem > 0 {
                segs.push(rem);
            }
            t.segs = segs;
            t.max_np = t.max_np.min(w).max(1);
        }
    }
}

pub fn taskset_strategy(g: TaskGen) -> BoxedStrategy<Vec<TaskSpec>> {
    taskset_strategy_u(g, 300, 1150)
}

/// task sets whose estimated utilisation is steered below a generated target in [lo, hi] (per mille)
pub fn taskset_strategy_u(g: TaskGen, lo: u64, hi: u64) -> BoxedStrategy<Vec<TaskSpec>> {
    (1..=g.nmax, lo..=hi)
        .prop_flat_map(move |(n, target)| (proptest::collection::vec(task_strategy(g, (n as u32).max(2)), n), Just(target)))
        .prop_map(|(mut tasks, target)| {
            steer_utilisation(&mut tasks, target as f64 / 1000.0);
            tasks
        })
        .boxed()
}

/// long-run utilisation estimate (x1000) of a task from its arrival bound
pub fn utilisation_milli(ts: &[TaskSpec], b: &Built) -> u64 {
    use response_time_analysis::arrival::ArrivalBound;
    ts.iter()
        .zip(b.arrs.iter())
        .map(|(t, a)| {
            let n = a.number_arrivals(d(20_000)) as u64;
            n * t.wcet * 1000 / 20_000
        })
        .sum()
}

//! Discrete-time uniprocessor scheduler simulator (FP / EDF / FIFO; fully
//! preemptive, fully non-preemptive, limited-preemptive with fixed preemption
//! points, floating non-preemptive regions).  It knows nothing about busy
//! windows, request-bound functions, offsets or fixed points.
//!
//! Conventions: time is slotted; a job released at t may run in slot t;
//! response time = completion instant - release.  Jobs of one task run in
//! release order.

use proptest::prelude::*;
use serde::{Deserialize, Serialize};

use crate::arr::*;
use crate::tasks::*;

#[derive(Clone, Copy, PartialEq, Eq, Debug)]
pub enum Pol {
    Fp,
    Edf,
    Fifo,
}

#[derive(Clone, Copy, PartialEq, Eq, Debug)]
pub enum Pre {
    P,
    Np,
    Lp,
    Fl,
}

pub fn policy_of(an: Analysis) -> (Pol, Pre) {
    match an {
        Analysis::FpP => (Pol::Fp, Pre::P),
        Analysis::FpNp => (Pol::Fp, Pre::Np),
        Analysis::FpLp => (Pol::Fp, Pre::Lp),
        Analysis::FpFl => (Pol::Fp, Pre::Fl),
        Analysis::EdfP => (Pol::Edf, Pre::P),
        Analysis::EdfNp => (Pol::Edf, Pre::Np),
        Analysis::EdfLp => (Pol::Edf, Pre::Lp),
        Analysis::EdfFl => (Pol::Edf, Pre::Fl),
        Analysis::Fifo => (Pol::Fifo, Pre::Np),
    }
}

pub struct SimIn<'a> {
    pub ts: &'a [TaskSpec],
    /// sorted release times per task
    pub rel: &'a [Vec<u64>],
    /// execution time per job (1..=wcet)
    pub exec: &'a [Vec<u64>],
    pub pol: Pol,
    pub pre: Pre,
    pub horizon: u64,
    /// tie-break decisions (consumed cyclically): among equal keys, does the later-indexed candidate win?
    pub tie: &'a [u8],
    /// non-preemptive-region decisions for the floating model (consumed cyclically)
    pub np: &'a [u8],
    /// ties are always resolved against this task
    pub against: Option<usize>,
    /// stop at the first idle slot at or after this time (end of the busy window)
    pub stop_when_idle_after: Option<u64>,
}

#[derive(Clone, Debug, Default)]
pub struct SimOut {
    /// per task: (release, response) of completed jobs
    pub done: Vec<Vec<(u64, u64)>>,
    /// per task: (release, age at the end) of jobs released but unfinished at the end
    pub unfinished: Vec<Vec<(u64, u64)>>,
    pub end: u64,
}

impl SimOut {
    pub fn worst(&self, i: usize) -> u64 {
        self.done[i]
            .iter()
            .map(|x| x.1)
            .chain(self.unfinished[i].iter().map(|x| x.1))
            .max()
            .unwrap_or(0)
    }
    pub fn worst_completed(&self, i: usize) -> u64 {
        self.done[i].iter().map(|x| x.1).max().unwrap_or(0)
    }
}

pub fn simulate(si: &SimIn) -> SimOut {
    let n = si.ts.len();
    let mut head = vec![0usize; n];
    let mut prog = vec![0u64; n];
    let mut out = SimOut { done: vec![vec![]; n], unfinished: vec![vec![]; n], end: si.horizon };
    let mut lock: Option<(usize, u64)> = None; // (task, remaining locked slots incl. the current one)
    let mut ti = 0usize;
    let mut ni = 0usize;
    for t in 0..si.horizon {
        let ready = |i: usize, head: &Vec<usize>| head[i] < si.rel[i].len() && si.rel[i][head[i]] <= t;
        let sel = if let Some((i, _)) = lock {
            Some(i)
        } else {
            let key = |i: usize, head: &Vec<usize>| -> u64 {
                match si.pol {
                    Pol::Fp => si.ts[i].prio as u64,
                    Pol::Edf => si.rel[i][head[i]] + si.ts[i].deadline,
                    Pol::Fifo => si.rel[i][head[i]],
                }
            };
            let mut best: Option<usize> = None;
            for i in 0..n {
                if !ready(i, &head) {
                    continue;
                }
                match best {
                    None => best = Some(i),
                    Some(bi) => {
                        let (kb, ki) = (key(bi, &head), key(i, &head));
                        let take = if ki < kb {
                            true
                        } else if ki > kb {
                            false
                        } else if Some(bi) == si.against {
                            true
                        } else if Some(i) == si.against {
                            false
                        } else if si.tie.is_empty() {
                            false
                        } else {
                            ti += 1;
                            si.tie[ti % si.tie.len()] % 2 == 1
                        };
                        if take {
                            best = Some(i);
                        }
                    }
                }
            }
            if let Some(i) = best {
                let cost = si.exec[i][head[i]];
                let left = cost - prog[i];
                match si.pre {
                    Pre::P => {}
                    Pre::Np => lock = Some((i, left)),
                    Pre::Lp => {
                        // next preemption point by progress: cumulative segment boundaries
                        let mut bnd = 0;
                        let mut next = cost;
                        for sg in &si.ts[i].segs {
                            bnd += sg;
                            if bnd > prog[i] {
                                next = bnd.min(cost);
                                break;
                            }
                        }
                        lock = Some((i, next - prog[i]));
                    }
                    Pre::Fl => {
                        let v = if si.np.is_empty() {
                            1
                        } else {
                            ni += 1;
                            si.np[ni % si.np.len()] as u64
                        };
                        let m = si.ts[i].max_np;
                        let l = match v % 3 {
                            0 => 0,
                            1 => m,
                            _ => 1 + (v / 3) % m,
                        }
                        .min(left);
                        if l > 0 {
                            lock = Some((i, l));
                        }
                    }
                }
            }
            best
        };
        match sel {
            Some(i) => {
                prog[i] += 1;
                if let Some((li, rem)) = lock {
                    lock = if rem <= 1 { None } else { Some((li, rem - 1)) };
                }
                if prog[i] == si.exec[i][head[i]] {
                    let r = si.rel[i][head[i]];
                    out.done[i].push((r, t + 1 - r));
                    head[i] += 1;
                    prog[i] = 0;
                    lock = None;
                }
            }
            None => {
                if let Some(after) = si.stop_when_idle_after {
                    if t >= after {
                        out.end = t;
                        break;
                    }
                }
            }
        }
    }
    for i in 0..n {
        let mut h = head[i];
        while h < si.rel[i].len() && si.rel[i][h] < out.end {
            out.unfinished[i].push((si.rel[i][h], out.end - si.rel[i][h]));
            h += 1;
        }
    }
    out
}

// ---------------------------------------------------------------------------
// schedules as generated data

#[derive(Clone, Debug, Serialize, Deserialize, PartialEq, Eq, Hash)]
pub struct SchedSpec {
    /// canonical adversary: one blocker entering its longest segment at t0-1, everything else
    /// densest from t0 (plus phases), all WCET, ties against the analysed task
    pub canonical: bool,
    /// per-task choice vectors for the release sequences (empty = densest)
    pub choices: Vec<Vec<u16>>,
    /// per-task phase added to t0 (others only)
    pub phases: Vec<u64>,
    /// per-job execution-time reductions (consumed cyclically; 0 = WCET)
    pub exec_cut: Vec<u8>,
    pub tie: Vec<u8>,
    pub np: Vec<u8>,
    pub against_tua: bool,
    pub with_blocker: bool,
}

pub fn sched_strategy(ntasks: usize, edf: bool) -> BoxedStrategy<SchedSpec> {
    let phases = if edf {
        proptest::collection::vec(prop_oneof![2 => Just(0u64), 3 => 0u64..12, 1 => 0u64..60], ntasks).boxed()
    } else {
        proptest::collection::vec(prop_oneof![5 => Just(0u64), 1 => 0u64..12], ntasks).boxed()
    };
    (
        prop_oneof![2 => Just(true), 3 => Just(false)],
        proptest::collection::vec(choices_strategy(), ntasks),
        phases,
        prop_oneof![3 => Just(vec![]), 2 => proptest::collection::vec(prop_oneof![3 => Just(0u8), 1 => any::<u8>()], 1..12)],
        proptest::collection::vec(any::<u8>(), 0..8),
        prop_oneof![2 => Just(vec![1u8]), 2 => proptest::collection::vec(any::<u8>(), 1..8)],
        any::<bool>(),
        prop_oneof![3 => Just(true), 1 => Just(false)],
    )
        .prop_map(|(canonical, mut choices, phases, exec_cut, tie, np, against_tua, with_blocker)| {
            if canonical {
                for c in choices.iter_mut() {
                    c.clear();
                }
            }
            SchedSpec {
                canonical,
                choices,
                phases,
                exec_cut: if canonical { vec![] } else { exec_cut },
                tie,
                np: if canonical { vec![1] } else { np },
                against_tua: canonical || against_tua,
                with_blocker,
            }
        })
        .boxed()
}

pub struct Concrete {
    pub rel: Vec<Vec<u64>>,
    pub exec: Vec<Vec<u64>>,
    pub t0: u64,
}

/// Is task i of lower priority than the analysed task under the analysis' policy (a potential blocker)?
fn is_lower(ts: &[TaskSpec], an: Analysis, tua: usize, i: usize) -> bool {
    if i == tua {
        return false;
    }
    if an.is_fp() {
        ts[i].prio > ts[tua].prio
    } else if an.is_edf() {
        ts[i].deadline > ts[tua].deadline
    } else {
        false
    }
}

/// Turn a schedule spec into release and execution-time sequences.
pub fn concretise(ts: &[TaskSpec], an: Analysis, tua: usize, sc: &SchedSpec, span: u64) -> Concrete {
    let n = ts.len();
    let (_, pre) = policy_of(an);
    // the blocker: the lower-priority task with the longest non-preemptive segment
    let blocker: Option<usize> = if sc.with_blocker && pre != Pre::P {
        (0..n).filter(|i| is_lower(ts, an, tua, *i) && !ts[*i].arr.never_arrives()).max_by_key(|i| (an.np_len(&ts[*i]), n - *i))
    } else {
        None
    };
    // t0 leaves room for the blocker's earlier segments
    let t0: u64 = 2 + ts.iter().map(|t| t.wcet).max().unwrap_or(1);
    let horizon = (t0 + span) as i64;
    let mut rel = vec![];
    let mut exec = vec![];
    let mut cut_i = 0usize;
    for i in 0..n {
        let mut ch = if i < sc.choices.len() { Choices::new(&sc.choices[i]) } else { Choices::dense() };
        let start: i64 = if Some(i) == blocker {
            // released so that its longest segment starts at t0 - 1 on an otherwise idle processor
            let before = if pre == Pre::Lp {
                let mx = ts[i].max_seg();
                let mut acc = 0;
                for sg in &ts[i].segs {
                    if *sg == mx {
                        break;
                    }
                    acc += sg;
                }
                acc
            } else {
                0
            };
            t0 as i64 - 1 - before as i64
        } else if i == tua {
            t0 as i64
        } else {
            (t0 + sc.phases.get(i).copied().unwrap_or(0)) as i64
        };
        let ev = ts[i].arr.events(start, horizon, &mut ch);
        let v: Vec<u64> = ev.into_iter().filter(|e| *e >= 0).map(|e| e as u64).collect();
        let e: Vec<u64> = v
            .iter()
            .map(|_| {
                if sc.exec_cut.is_empty() {
                    ts[i].wcet
                } else {
                    cut_i += 1;
                    let c = sc.exec_cut[cut_i % sc.exec_cut.len()] as u64;
                    // never shorten the blocker's first job below its longest-segment position
                    ts[i].wcet - c % ts[i].wcet
                }
            })
            .collect();
        rel.push(v);
        exec.push(e);
    }
    Concrete { rel, exec, t0 }
}

//! C08 — fixed-point search returns the least solution or reports divergence.

use proptest::prelude::*;
use response_time_analysis::fixed_point::{self, SearchFailure, SearchResult};
use response_time_analysis::time::Offset;
use serde::{Deserialize, Serialize};

use crate::engine::*;
use crate::supply_ref::*;

#[derive(Clone, Debug, Serialize, Deserialize)]
pub enum LimitMode {
    /// limit = fixed point + k
    Above(u64),
    /// limit = the fixed point itself
    AtFixedPoint,
    /// limit = fixed point - k (k >= 1)
    Below(u64),
    Absolute(u64),
}

#[derive(Clone, Debug, Serialize, Deserialize)]
pub struct SearchCase {
    pub supply: SupplySpec,
    pub offset: u64,
    /// extra demand on top of the minimum that keeps the offset inside the busy window
    pub base_extra: u64,
    /// zero-demand case (only meaningful with offset 0)
    pub zero_demand: bool,
    /// workload steps: at response-time r >= `at` the demand grows by `inc`
    pub steps: Vec<(u64, u64)>,
    pub limit: LimitMode,
    pub use_search: bool,
}

fn any_supply() -> BoxedStrategy<SupplySpec> {
    prop_oneof![
        2 => Just(SupplySpec::Dedicated),
        4 => reservation_strategy(12),
        4 => user_supply_strategy(),
    ]
    .boxed()
}

fn limit_mode() -> BoxedStrategy<LimitMode> {
    prop_oneof![
        3 => (1u64..200).prop_map(LimitMode::Above),
        3 => Just(LimitMode::AtFixedPoint),
        3 => (1u64..4).prop_map(LimitMode::Below),
        2 => (1u64..120).prop_map(LimitMode::Absolute),
    ]
    .boxed()
}

pub fn search_case_strategy() -> BoxedStrategy<SearchCase> {
    search_strategy(Tier::Quick)
}

/// the raw search of a case with an explicit limit (used by C20's profile differential)
pub fn run_search_case(c: &SearchCase, limit: u64) -> String {
    let inst = instance(c);
    let sup = c.supply.build();
    let wl = |r: response_time_analysis::time::Duration| s(inst.w(du(r)));
    let r = if c.use_search && inst.offset == 0 {
        fixed_point::search(&sup, d(limit), wl)
    } else {
        fixed_point::search_with_offset(&sup, Offset::from(inst.offset), d(limit), &wl)
    };
    format!("{:?}", r)
}

fn search_strategy(_tier: Tier) -> BoxedStrategy<SearchCase> {
    (
        any_supply(),
        prop_oneof![3 => Just(0u64), 5 => 0u64..40],
        0u64..12,
        prop_oneof![9 => Just(false), 1 => Just(true)],
        proptest::collection::vec((1u64..60, 1u64..6), 0..7),
        limit_mode(),
        any::<bool>(),
    )
        .prop_map(|(supply, offset, base_extra, zero_demand, steps, limit, use_search)| SearchCase {
            supply,
            offset,
            base_extra,
            zero_demand,
            steps,
            limit,
            use_search,
        })
        .boxed()
}

struct Instance {
    offset: u64,
    table: Vec<u64>,
    base: u64,
    steps: Vec<(u64, u64)>,
}

impl Instance {
    fn w(&self, r: u64) -> u64 {
        self.base + self.steps.iter().filter(|(at, _)| *at <= r).map(|(_, inc)| *inc).sum::<u64>()
    }
    /// least r >= 0 with sbf(off + r) >= w(max(r,1)), scanning up to `upto`
    fn least(&self, upto: u64) -> Option<u64> {
        (0..=upto).find(|r| self.table[(self.offset + r) as usize] >= self.w((*r).max(1)))
    }
}

const SCAN: u64 = 1500;

fn instance(c: &SearchCase) -> Instance {
    let offset = if c.zero_demand { 0 } else { c.offset };
    let table = c.supply.ref_table(offset + SCAN + 2);
    // offset inside the busy window: service_time(w(1)) >= offset <=> sbf(offset-1) < w(1)
    let min_base = if offset == 0 { 0 } else { table[(offset - 1) as usize] + 1 };
    let (base, steps) = if c.zero_demand {
        // no demand at r = 1; steps later do not matter for the result
        (0, c.steps.iter().filter(|(at, _)| *at > 1).cloned().collect())
    } else {
        (min_base + c.base_extra, c.steps.clone())
    };
    Instance { offset, table, base, steps }
}

fn check_search(c: &SearchCase) -> CheckResult {
    let mut out = Outcome::default();
    let inst = instance(c);
    let sup = c.supply.build();
    let least = inst.least(SCAN);
    let limit = match (&c.limit, least) {
        (LimitMode::Absolute(l), _) => *l,
        (LimitMode::Above(k), Some(r)) => r + k,
        (LimitMode::AtFixedPoint, Some(r)) => r,
        (LimitMode::Below(k), Some(r)) => r.saturating_sub(*k),
        (_, None) => 300,
    }
    .max(1)
    .min(SCAN);
    let expected: Result<u64, (u64, u64)> = match least {
        Some(r) if r <= limit => Ok(r),
        _ => Err((inst.offset, limit)),
    };
    let wl = |r: response_time_analysis::time::Duration| s(inst.w(du(r)));
    let use_search = c.use_search && inst.offset == 0;
    let got = guard(|| {
        if use_search {
            fixed_point::search(&sup, d(limit), wl)
        } else {
            fixed_point::search_with_offset(&sup, Offset::from(inst.offset), d(limit), &wl)
        }
    })
    .map_err(|e| format!("search panicked: {} (limit {}, offset {})", e, limit, inst.offset))?;
    let got_n: Result<u64, (u64, u64)> = match got {
        Ok(r) => Ok(du(r)),
        Err(SearchFailure::DivergenceLimitExceeded { offset, limit }) => {
            Err((du(offset.since_time_zero()), du(limit)))
        }
        Err(e) => return Err(format!("unexpected error {:?}", e)),
    };
    if got_n != expected {
        return Err(format!(
            "search returned {:?} but the least r with sbf(off+r) >= w(max(r,1)) is {:?} (limit {}, offset {}) => expected {:?}",
            got_n, least, limit, inst.offset, expected
        ));
    }
    // raising the limit never changes an Ok
    if let Ok(r) = expected {
        for extra in [1u64, 7, 1000, 250_000] {
            let again = guard(|| fixed_point::search_with_offset(&sup, Offset::from(inst.offset), d(limit + extra), &wl))
                .map_err(|e| format!("search panicked: {}", e))?;
            if again != Ok(d(r)) {
                return Err(format!("Ok({}) at limit {} became {:?} at limit {}", r, limit, again, limit + extra));
            }
        }
    }
    out.inner = 1;
    let iterations_needed = match least {
        Some(r) => inst.steps.iter().any(|(at, _)| *at > 1 && *at <= r),
        None => true,
    };
    out.nontrivial = iterations_needed || expected.is_err();
    out.label_if(expected.is_err(), "err");
    out.label_if(matches!(expected, Ok(0)), "ok-zero");
    out.label_if(least == Some(limit), "limit=fixed-point");
    out.label_if(least == Some(limit + 1), "limit=fixed-point-1");
    out.label_if(matches!(c.supply, SupplySpec::UserSteps { .. }), "user-supply(default service_time)");
    out.label_if(inst.offset > 0, "offset>0");
    out.label_if(iterations_needed && expected.is_ok(), "multi-iteration-ok");
    Ok(out)
}

pub fn decode_search(d: &mut crate::dec::Dec) -> SearchCase {
    use crate::dec::*;
    let supply = match d.pick(3) {
        0 => SupplySpec::Dedicated,
        1 => dec_supply(d, 12),
        _ => {
            let incr: Vec<u8> = d.vec(0, 11, |d| d.byte() & 1);
            let mut cycle: Vec<u8> = d.vec(1, 7, |d| d.byte() & 1);
            if cycle.iter().all(|x| *x == 0) {
                cycle[0] = 1;
            }
            SupplySpec::UserSteps { incr, cycle }
        }
    };
    let limit = match d.pick(4) {
        0 => LimitMode::Above(d.range(1, 199)),
        1 => LimitMode::AtFixedPoint,
        2 => LimitMode::Below(d.range(1, 3)),
        _ => LimitMode::Absolute(d.range(1, 119)),
    };
    SearchCase {
        supply,
        offset: d.range(0, 39),
        base_extra: d.range(0, 11),
        zero_demand: d.byte() % 10 == 0,
        steps: d.vec(0, 6, |d| (d.range(1, 59), d.range(1, 5))),
        limit,
        use_search: d.flag(),
    }
}

// --- max_response_time -------------------------------------------------------

#[derive(Clone, Debug, Serialize, Deserialize)]
pub enum Res {
    Ok(u64),
    Div { offset: u64, limit: u64 },
    Assumption,
}

fn res_strategy() -> BoxedStrategy<Res> {
    prop_oneof![
        6 => (0u64..50).prop_map(Res::Ok),
        2 => (0u64..20, 1u64..20).prop_map(|(offset, limit)| Res::Div { offset, limit }),
        1 => Just(Res::Assumption),
    ]
    .boxed()
}

fn max_strategy(_tier: Tier) -> BoxedStrategy<Vec<Res>> {
    proptest::collection::vec(res_strategy(), 0..10).boxed()
}

fn to_sr(r: &Res) -> SearchResult {
    match r {
        Res::Ok(v) => Ok(d(*v)),
        Res::Div { offset, limit } => Err(SearchFailure::DivergenceLimitExceeded {
            offset: Offset::from(*offset),
            limit: d(*limit),
        }),
        Res::Assumption => Err(SearchFailure::AssumptionViolated),
    }
}

fn check_max(c: &Vec<Res>) -> CheckResult {
    let mut out = Outcome::default();
    let seq: Vec<SearchResult> = c.iter().map(to_sr).collect();
    let expected: SearchResult = match seq.iter().find(|r| r.is_err()) {
        Some(e) => *e,
        None => Ok(seq.iter().map(|r| r.unwrap()).max().unwrap_or(d(0))),
    };
    let got = guard(|| fixed_point::max_response_time(seq.clone().into_iter()))
        .map_err(|e| format!("max_response_time panicked: {}", e))?;
    if got != expected {
        return Err(format!("max_response_time({:?}) = {:?}, expected {:?}", c, got, expected));
    }
    let nerr = seq.iter().filter(|r| r.is_err()).count();
    out.nontrivial = seq.len() >= 2;
    out.label_if(nerr >= 2, "two-or-more-errors");
    out.label_if(seq.is_empty(), "empty");
    Ok(out)
}

/// exhaustive stage: small supplies x offsets x workloads x limit modes
fn exhaustive(tier: Tier, _seed: u64) -> ExtraResult {
    let mut r = ExtraResult { exhaustive: true, replay_subcheck: "search", ..Default::default() };
    let pmax = tier.pick(4u64, 6u64);
    let mut supplies = vec![SupplySpec::Dedicated];
    for p in 1..=pmax {
        for q in 1..=p {
            supplies.push(SupplySpec::Periodic { q, p });
            for dl in q..=p {
                supplies.push(SupplySpec::Constrained { q, d: dl, p });
            }
        }
    }
    supplies.push(SupplySpec::UserSteps { incr: vec![0, 0, 1], cycle: vec![1, 0] });
    supplies.push(SupplySpec::UserSteps { incr: vec![], cycle: vec![0, 0, 0, 1] });
    let workloads: Vec<Vec<(u64, u64)>> = vec![vec![], vec![(2, 1)], vec![(3, 2), (5, 1)], vec![(2, 1), (4, 1), (6, 1), (8, 1)]];
    let limits = vec![
        LimitMode::AtFixedPoint,
        LimitMode::Below(1),
        LimitMode::Above(1),
        LimitMode::Absolute(1),
        LimitMode::Absolute(2),
        LimitMode::Absolute(3),
        LimitMode::Absolute(5),
        LimitMode::Absolute(9),
    ];
    for supply in &supplies {
        for offset in 0..=6u64 {
            for base_extra in 0..=2u64 {
                for steps in &workloads {
                    for limit in &limits {
                        for use_search in [false, true] {
                            if use_search && offset > 0 {
                                continue;
                            }
                            let c = SearchCase { supply: supply.clone(), offset, base_extra, zero_demand: false, steps: steps.clone(), limit: limit.clone(), use_search };
                            r.evaluations += 1;
                            match check_search(&c) {
                                Ok(o) => {
                                    if o.nontrivial {
                                        r.nontrivial += 1;
                                    }
                                }
                                Err(msg) => {
                                    r.failure = Some((serde_json::to_value(&c).unwrap(), msg));
                                    return r;
                                }
                            }
                        }
                    }
                }
            }
        }
    }
    r.note = format!("every reservation with P <= {}, dedicated and two user supplies x offsets 0..6 x base demands x 4 step workloads x 8 limit modes x search / search_with_offset", pmax);
    r
}

// --- slow convergence --------------------------------------------------------------

/// w(r) = min(r + 1, n): the iteration creeps towards its fixed point one tick at a time
#[derive(Clone, Debug, Serialize, Deserialize)]
pub struct SlowCase {
    pub supply: SupplySpec,
    pub n: u64,
    pub limit: LimitMode,
    pub use_search: bool,
}

fn slow_strategy(tier: Tier) -> BoxedStrategy<SlowCase> {
    let nmax = tier.pick(40_000u64, 120_000u64);
    (
        prop_oneof![2 => Just(SupplySpec::Dedicated), 2 => reservation_strategy(6), 1 => user_supply_strategy()],
        prop_oneof![1 => 1u64..200, 3 => 1000u64..nmax],
        limit_mode(),
        any::<bool>(),
    )
        .prop_map(|(supply, n, limit, use_search)| SlowCase { supply, n, limit, use_search })
        .boxed()
}

fn check_slow(c: &SlowCase) -> CheckResult {
    let mut out = Outcome::default();
    let sup = c.supply.build();
    // sbf(r) <= r < r + 1, so the least r with sbf(r) >= min(r + 1, n) is the least r with sbf(r) >= n
    let least = match &c.supply {
        SupplySpec::Dedicated => c.n,
        _ => {
            // linear scan over the reference SBF in period-sized strides
            let mut t = c.n;
            loop {
                if c.supply.ref_sbf(t) >= c.n {
                    break;
                }
                t += c.n - c.supply.ref_sbf(t);
            }
            // walk back to the least such t (ref_sbf is monotone and 1-Lipschitz)
            while t > 0 && c.supply.ref_sbf(t - 1) >= c.n {
                t -= 1;
            }
            t
        }
    };
    let limit = match &c.limit {
        LimitMode::Absolute(l) => *l * 500,
        LimitMode::Above(k) => least + k,
        LimitMode::AtFixedPoint => least,
        LimitMode::Below(k) => least.saturating_sub(*k),
    }
    .max(1);
    let expected: Result<u64, (u64, u64)> = if least <= limit { Ok(least) } else { Err((0, limit)) };
    let n = c.n;
    let wl = move |r: response_time_analysis::time::Duration| s((du(r) + 1).min(n));
    let got = guard_with_budget(400_000_000, || {
        if c.use_search {
            fixed_point::search(&sup, d(limit), wl)
        } else {
            fixed_point::search_with_offset(&sup, Offset::from(0), d(limit), &wl)
        }
    })
    .map_err(|e| format!("search panicked: {} (n {}, limit {})", e, c.n, limit))?;
    let got_n: Result<u64, (u64, u64)> = match got {
        Ok(r) => Ok(du(r)),
        Err(SearchFailure::DivergenceLimitExceeded { offset, limit }) => Err((du(offset.since_time_zero()), du(limit))),
        Err(e) => return Err(format!("unexpected error {:?}", e)),
    };
    if got_n != expected {
        return Err(format!(
            "search over w(r) = min(r+1, {}) returned {:?} but the least solution is {} (limit {}) => expected {:?}",
            c.n, got_n, least, limit, expected
        ));
    }
    out.inner = 1;
    out.nontrivial = c.n >= 1000;
    out.label_if(expected.is_err(), "err");
    out.label_if(c.n > 10_000, "more-than-10000-iterations");
    Ok(out)
}

pub fn def() -> PropertyDef {
    PropertyDef {
        id: "C08",
        rule: "generated: supply (dedicated / periodic / constrained / user-defined 0-1 increment vector with periodic tail that only implements provided_service), monotone step workload w(r) = base + sum of steps, offset inside the busy window (base > sbf(offset-1)), limit mode (above / equal to / just below the least solution / absolute); oracle: linear scan for the least r>=0 with ref_sbf(off+r) >= w(max(r,1)), ref_sbf computed from the reservation parameters alone; Ok iff r <= limit, else the error carrying exactly (offset, limit); larger limits reproduce the Ok. Third sub-check: workloads w(r) = min(r+1, n) with n up to 40000 (quick) / 120000 (thorough), on which the iteration needs ~n rounds. Second sub-check: generated sequences of SearchResults for max_response_time against first-error / maximum / zero. Non-trivial: the search needs >= 2 iterations (a workload step inside (1, r]) or diverges; for sequences: length >= 2. Distinct by case JSON.".into(),
        assumptions: vec![
            "limits >= 1 (with limit 0 the loop body never runs and every search reports divergence)".into(),
            "offsets lie inside the busy window: service_time(w(1)) >= offset (the invariant every caller in the crate maintains)".into(),
            "supplies are 1-Lipschitz (the debug cross-check in search() looks for equality)".into(),
        ],
        subchecks: vec![
            subcheck("search", (20_000, 400_000), search_strategy, check_search).with_decoder(decode_search, check_search),
            subcheck("max_response_time", (5000, 100_000), max_strategy, check_max),
            subcheck("slow-convergence", (12, 200), slow_strategy, check_slow),
        ],
        extra: Some(Box::new(exhaustive)),
    }
}

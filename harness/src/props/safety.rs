//! C01 / C02 / C03 — the FP, EDF and FIFO analyses are safe for every legal schedule;
//! C18 — the preemptive-FP, non-preemptive-FP and FIFO bounds are attained.

use proptest::prelude::*;
use serde::{Deserialize, Serialize};

use crate::arr::*;
use crate::engine::*;
use crate::sim_uni::*;
use crate::tasks::*;

#[derive(Clone, Debug, Serialize, Deserialize)]
pub enum Limit {
    Large,
    Absolute(u64),
}

#[derive(Clone, Debug, Serialize, Deserialize)]
pub struct Case {
    pub tasks: Vec<TaskSpec>,
    pub tua: usize,
    pub analysis: Analysis,
    pub limit: Limit,
    pub wrap: Wrap,
    pub scheds: Vec<SchedSpec>,
}

fn task_gen(tier: Tier, exact_only: bool) -> TaskGen {
    TaskGen {
        arr: ArrGen {
            tmax: tier.pick(30, 40),
            never: !exact_only,
            plateau_end: true,
            // plain (repeating) curves and derived curves over-approximate, which is fine for safety;
            // the tightness check uses exact curves only
            plain_curves: !exact_only,
            derived: !exact_only,
            acp: false,
            loose: false,
            poisson: false,
            depth: if exact_only { 0 } else { 1 },
        },
        cmax: 8,
        nmax: tier.pick(4, 5),
        dfac: 3,
    }
}

fn case_strategy(tier: Tier, analyses: Vec<Analysis>, exact_only: bool, nsched: usize) -> BoxedStrategy<Case> {
    let g = task_gen(tier, exact_only);
    // a third of the task sets is heavily loaded, and a quarter of the cases analyses the task that
    // suffers most interference (lowest priority / longest deadline): long busy windows with several
    // jobs of the analysed task, i.e. maxima at offsets A > 0
    let sets = prop_oneof![2 => taskset_strategy_u(g, 300, 1050), 1 => taskset_strategy_u(g, 850, 1020)];
    (sets, proptest::sample::select(analyses))
        .prop_flat_map(move |(tasks, analysis)| {
            let n = tasks.len();
            let last = (0..n).max_by_key(|i| if analysis.is_edf() { (tasks[*i].deadline, *i) } else { (tasks[*i].prio as u64, *i) }).unwrap_or(0);
            (
                Just(tasks),
                prop_oneof![3 => (0..n).boxed(), 1 => Just(last).boxed()],
                Just(analysis),
                prop_oneof![4 => Just(Limit::Large), 1 => (1u64..200).prop_map(Limit::Absolute)],
                prop_oneof![Just(Wrap::Plain), Just(Wrap::Boxed), Just(Wrap::Refs)],
                proptest::collection::vec(sched_strategy(n, analysis.is_edf()), nsched..=nsched + 2),
            )
        })
        .prop_map(|(tasks, tua, analysis, limit, wrap, scheds)| Case { tasks, tua, analysis, limit, wrap, scheds })
        .boxed()
}

fn canonical_sched(n: usize) -> SchedSpec {
    SchedSpec {
        canonical: true,
        choices: vec![vec![]; n],
        phases: vec![0; n],
        exec_cut: vec![],
        tie: vec![],
        np: vec![1],
        against_tua: true,
        with_blocker: true,
    }
}

pub const LARGE_LIMIT: u64 = 3000;

struct Observed {
    worst: u64,
    interfered: bool,
    sims: u64,
}

/// simulate the schedules of a case; Err = some job exceeded the bound
fn run_schedules(c: &Case, bound: u64, tua_for_sched: usize, stop_at_busy_window_end: bool) -> Result<Observed, String> {
    run_schedules_mf(c, bound, tua_for_sched, stop_at_busy_window_end, None)
}

/// `frames`: per-task cost frames and starting phases; job k of task i then costs at most
/// frames[i][(phase[i] + k) % len] (zero-cost jobs take no processor time and are left out)
fn run_schedules_mf(c: &Case, bound: u64, tua_for_sched: usize, stop_at_busy_window_end: bool, frames: Option<(&[Vec<u64>], &[u8])>) -> Result<Observed, String> {
    let ts = &c.tasks;
    let n = ts.len();
    let (pol, pre) = policy_of(c.analysis);
    let maxscale = ts.iter().map(|t| t.arr.scale().min(200)).max().unwrap_or(1);
    let span = ((4 * bound).max(40) + 2 * maxscale + 20).min(1500);
    let mut obs = Observed { worst: 0, interfered: false, sims: 0 };
    let mut all = vec![canonical_sched(n)];
    all.extend(c.scheds.iter().cloned());
    for sc in &all {
        let mut con = concretise(ts, c.analysis, tua_for_sched, sc, if stop_at_busy_window_end { 6000 } else { span });
        if let Some((fr, ph)) = frames {
            let mut cut_i = 0usize;
            for i in 0..n {
                let f = &fr[i];
                let p = ph.get(i).copied().unwrap_or(0) as usize;
                let mut rel = vec![];
                let mut exec = vec![];
                for (k, r) in con.rel[i].iter().enumerate() {
                    let full = f[(p + k) % f.len()];
                    let e = if sc.exec_cut.is_empty() || full == 0 {
                        full
                    } else {
                        cut_i += 1;
                        full - (sc.exec_cut[cut_i % sc.exec_cut.len()] as u64) % full
                    };
                    if e > 0 {
                        rel.push(*r);
                        exec.push(e);
                    }
                }
                con.rel[i] = rel;
                con.exec[i] = exec;
            }
        }
        let si = SimIn {
            ts,
            rel: &con.rel,
            exec: &con.exec,
            pol,
            pre,
            horizon: con.t0 + if stop_at_busy_window_end { 6000 } else { span },
            tie: &sc.tie,
            np: &sc.np,
            against: if sc.against_tua { Some(tua_for_sched) } else { None },
            stop_when_idle_after: if stop_at_busy_window_end { Some(con.t0) } else { None },
        };
        let so = simulate(&si);
        obs.sims += 1;
        let who: Vec<usize> = if c.analysis == Analysis::Fifo { (0..n).collect() } else { vec![c.tua] };
        for &i in &who {
            let w = so.worst(i);
            if w > bound {
                // find the offending job
                let job = so.done[i].iter().chain(so.unfinished[i].iter()).find(|x| x.1 > bound).unwrap();
                return Err(format!(
                    "{}: a job of task {} released at {} has response time >= {} but the analysis returned Ok({}) (schedule {:?}; releases {:?}; execution times {:?})",
                    c.analysis.name(),
                    i,
                    job.0,
                    job.1,
                    bound,
                    sc,
                    con.rel.iter().map(|v| &v[..v.len().min(8)]).collect::<Vec<_>>(),
                    con.exec.iter().map(|v| &v[..v.len().min(8)]).collect::<Vec<_>>()
                ));
            }
            obs.worst = obs.worst.max(so.worst_completed(i));
            // did some job of the task wait? (response > own execution time)
            for (k, job) in so.done[i].iter().enumerate() {
                if k < con.exec[i].len() && job.1 > con.exec[i][k] {
                    obs.interfered = true;
                    break;
                }
            }
        }
    }
    Ok(obs)
}

fn check_safe(c: &Case) -> CheckResult {
    let mut out = Outcome::default();
    let ts = &c.tasks;
    let b = guard(|| build_tasks(ts)).map_err(|e| format!("constructing the task set panicked: {}", e))?;
    let limit = match c.limit {
        Limit::Large => LARGE_LIMIT,
        Limit::Absolute(x) => x,
    };
    let res = match guard(|| run_analysis(ts, &b, c.analysis, c.tua, limit, None, c.wrap)) {
        Ok(r) => Res::from(r),
        Err(_) => {
            // panics are C20's business
            out.label("analysis-panicked(skipped)");
            return Ok(out);
        }
    };
    let bound = match res {
        Res::Ok(r) => r,
        _ => {
            out.label("analysis-err");
            return Ok(out);
        }
    };
    if ts[c.tua].arr.never_arrives() && c.analysis != Analysis::Fifo {
        out.label("tua-never-arrives");
        return Ok(out);
    }
    let obs = run_schedules(c, bound, c.tua, false)?;
    out.inner = obs.sims;
    let others = ts.len() >= 2;
    out.nontrivial = others && obs.interfered;
    out.label_if(obs.worst == bound, "bound-attained");
    out.label_if(obs.worst + 1 == bound, "bound-minus-one-observed");
    out.label_if(ts[c.tua].arr.has_jitter(), "tua-jitter");
    out.label_if(ts[c.tua].arr.has_burst(), "tua-burst");
    out.label_if(matches!(c.limit, Limit::Absolute(_)), "small-limit-ok");
    out.label(c.analysis.name());
    Ok(out)
}

fn fp_strategy(tier: Tier) -> BoxedStrategy<Case> {
    case_strategy(tier, vec![Analysis::FpP, Analysis::FpNp, Analysis::FpLp, Analysis::FpFl], false, 5)
}
fn edf_strategy(tier: Tier) -> BoxedStrategy<Case> {
    case_strategy(tier, vec![Analysis::EdfP, Analysis::EdfNp, Analysis::EdfLp, Analysis::EdfFl], false, 6)
}
fn fifo_strategy(tier: Tier) -> BoxedStrategy<Case> {
    case_strategy(tier, vec![Analysis::Fifo], false, 5)
}

// --- multiframe cost models (the RBF-based analyses accept any job-cost model) -----------

#[derive(Clone, Debug, Serialize, Deserialize)]
pub struct MfCase {
    pub base: Case,
    /// per task: further frames (each capped by the task's WCET, which is always frame 0; sorted
    /// non-increasingly so that the first n frames bound any n consecutive jobs)
    pub extra_frames: Vec<Vec<u64>>,
    /// per task: frame index of its first job in the schedule
    pub phase: Vec<u8>,
}

fn mf_strategy(tier: Tier, analyses: Vec<Analysis>) -> BoxedStrategy<MfCase> {
    (
        case_strategy(tier, analyses, false, 5),
        proptest::collection::vec(proptest::collection::vec(prop_oneof![3 => Just(0u64), 2 => 1u64..=3, 3 => 1u64..=8], 0..4), 5),
        proptest::collection::vec(0u8..4, 5),
    )
        .prop_map(|(base, extra_frames, phase)| MfCase { base, extra_frames, phase })
        .boxed()
}
fn mf_fp_strategy(tier: Tier) -> BoxedStrategy<MfCase> {
    mf_strategy(tier, vec![Analysis::FpP, Analysis::FpFl])
}
fn mf_edf_strategy(tier: Tier) -> BoxedStrategy<MfCase> {
    mf_strategy(tier, vec![Analysis::EdfP, Analysis::EdfFl])
}
fn mf_fifo_strategy(tier: Tier) -> BoxedStrategy<MfCase> {
    mf_strategy(tier, vec![Analysis::Fifo])
}

fn check_mf(c: &MfCase) -> CheckResult {
    use crate::supply_ref::{d, s};
    use response_time_analysis::demand::{self, RBF};
    use response_time_analysis::wcet::Multiframe;
    use response_time_analysis::{edf, fifo, fixed_priority as fp};
    let mut out = Outcome::default();
    let ts = &c.base.tasks;
    let n = ts.len();
    let tua = c.base.tua;
    let an = c.base.analysis;
    let frames: Vec<Vec<u64>> = (0..n)
        .map(|i| {
            let mut rest: Vec<u64> = c.extra_frames.get(i).cloned().unwrap_or_default().iter().map(|x| (*x).min(ts[i].wcet)).collect();
            rest.sort_unstable_by(|a, b| b.cmp(a));
            let mut f = vec![ts[i].wcet];
            f.extend(rest);
            f
        })
        .collect();
    let limit = d(match c.base.limit {
        Limit::Large => LARGE_LIMIT,
        Limit::Absolute(x) => x,
    });
    let r = guard(|| {
        let rbfs: Vec<RBF<Ab, Multiframe>> = (0..n).map(|i| RBF::new(ts[i].arr.build(), Multiframe::new(frames[i].iter().map(|x| s(*x)).collect()))).collect();
        let t = &ts[tua];
        match an {
            Analysis::FpP | Analysis::FpFl => {
                let hep: Vec<&RBF<Ab, Multiframe>> = (0..n).filter(|i| *i != tua && ts[*i].prio <= t.prio).map(|i| &rbfs[i]).collect();
                if an == Analysis::FpP {
                    fp::fully_preemptive::dedicated_uniproc_rta(&rbfs[tua], &hep[..], limit)
                } else {
                    fp::floating_nonpreemptive::dedicated_uniproc_rta(
                        &fp::floating_nonpreemptive::TaskUnderAnalysis { rbf: &rbfs[tua], blocking_bound: s(fp_blocking(ts, tua, an)) },
                        &hep[..],
                        limit,
                    )
                }
            }
            Analysis::EdfP => {
                let others: Vec<edf::fully_preemptive::Task<RBF<Ab, Multiframe>>> =
                    (0..n).filter(|i| *i != tua).map(|i| edf::fully_preemptive::Task { rbf: &rbfs[i], deadline: d(ts[i].deadline) }).collect();
                edf::fully_preemptive::dedicated_uniproc_rta(&edf::fully_preemptive::Task { rbf: &rbfs[tua], deadline: d(t.deadline) }, &others[..], limit)
            }
            Analysis::EdfFl => {
                let others: Vec<edf::floating_nonpreemptive::InterferingTask<RBF<Ab, Multiframe>>> = (0..n)
                    .filter(|i| *i != tua)
                    .map(|i| edf::floating_nonpreemptive::InterferingTask { rbf: &rbfs[i], deadline: d(ts[i].deadline), max_np_segment: s(ts[i].max_np) })
                    .collect();
                edf::floating_nonpreemptive::dedicated_uniproc_rta(
                    &edf::floating_nonpreemptive::TaskUnderAnalysis { rbf: &rbfs[tua], deadline: d(t.deadline) },
                    &others[..],
                    limit,
                )
            }
            Analysis::Fifo => match c.base.wrap {
                Wrap::Plain => fifo::dedicated_uniproc_rta(&demand::Slice::of(&rbfs[..]), limit),
                _ => fifo::dedicated_uniproc_rta(&demand::Aggregate::new(rbfs.clone()), limit),
            },
            _ => unreachable!("only the analyses that take request-bound functions"),
        }
    });
    let bound = match r {
        Ok(r) => match Res::from(r) {
            Res::Ok(b) => b,
            _ => {
                out.label("analysis-err");
                return Ok(out);
            }
        },
        Err(_) => {
            out.label("analysis-panicked(skipped)");
            return Ok(out);
        }
    };
    if ts[tua].arr.never_arrives() && an != Analysis::Fifo {
        out.label("tua-never-arrives");
        return Ok(out);
    }
    let obs = run_schedules_mf(&c.base, bound, tua, false, Some((&frames[..], &c.phase[..])))
        .map_err(|e| format!("{} [multiframe costs {:?}, phases {:?}]", e, frames, c.phase))?;
    out.inner = obs.sims;
    let varied = frames.iter().any(|f| f.iter().any(|x| *x != f[0]));
    out.nontrivial = n >= 2 && obs.interfered && varied;
    out.label_if(obs.worst == bound, "bound-attained");
    out.label_if(frames.iter().any(|f| f.contains(&0)), "zero-cost-frames");
    out.label_if(frames[tua].iter().any(|x| *x != frames[tua][0]), "tua-varied-costs");
    out.label(an.name());
    Ok(out)
}

const MF_RULE: &str = " Sub-check multiframe-costs: the analyses of this family that take request-bound functions rather than a scalar WCET are run on RBFs built from wcet::Multiframe (frame 0 = the task's WCET, up to 3 further frames <= WCET in non-increasing order, zero-cost frames included), and the simulated jobs cost at most their frame (generated starting phase per task; zero-cost jobs take no processor time); oracle as above. Non-trivial there: additionally some task has two different frame costs.";

const SIM_ASSUMPTIONS: [&str; 4] = [
    "discrete time: a job released at t may run in slot t; response = completion - release; jobs of one task run in release order",
    "release sequences are admissible by construction of the models' documented semantics (arr.rs), cross-validated against number_arrivals by C10",
    "limited-preemptive = fixed preemption points by progress (a job that needs less than its WCET simply stops early); floating = a job may open a non-preemptive region of generated length <= its maximum whenever it is (re)scheduled",
    "blocking bound handed to the FP analyses: longest lower-priority non-preemptive segment - 1 (as the property prescribes)",
];

pub fn def_c01() -> PropertyDef {
    PropertyDef {
        id: "C01",
        rule: format!("{}{}", "generated: task sets of 1-4 (thorough: 5) tasks (Periodic, Sporadic with J up to 4T, extrapolating bursty delta-min curves incl. plateaus, jittered / propagated / summed models, rarely Never; T <= 30/40, WCET <= 8, utilisation steered to 0.3-1.05, equal priorities, segment vectors, floating region lengths), the analysed task, one of the four FP analyses, limit (3000 or small absolute), RBF wrapping, and per case the canonical adversary (one lower-priority blocker entering its longest non-preemptive segment at t0-1, everything else densest from t0, all WCET, ties against the analysed task) plus 5-7 generated schedules (release slack / jitter decisions, phases, execution-time cuts, tie-break vectors, non-preemptive-region decisions, blocker on/off). Oracle: independent slot-by-slot scheduler simulation; every job of the analysed task (completed, or unfinished at the horizon with its age) must respond within Ok(R). Non-trivial: Ok result, >= 2 tasks and some job of the analysed task waited (response > own execution time); labels report how often the bound was attained exactly. Distinct by case JSON.", MF_RULE),
        assumptions: SIM_ASSUMPTIONS.iter().map(|s| s.to_string()).collect(),
        subchecks: vec![subcheck("simulate", (4500, 60_000), fp_strategy, check_safe), subcheck("multiframe-costs", (800, 30_000), mf_fp_strategy, check_mf)],
        extra: None,
    }
}

pub fn def_c02() -> PropertyDef {
    PropertyDef {
        id: "C02",
        rule: format!("{}{}", "as C01 with the four EDF analyses: relative deadlines 1..3T (also larger than the period), EDF simulator with generated tie-break vectors (incl. 'analysed job always last'), per-task phases so that other tasks' deadlines line up with offsets A > 0 of the analysed task, a later-deadline blocker entering its longest non-preemptive segment one tick before t0; 6-8 generated schedules plus the canonical adversary per case. Oracle and non-triviality as C01.", MF_RULE),
        assumptions: SIM_ASSUMPTIONS.iter().map(|s| s.to_string()).collect(),
        subchecks: vec![subcheck("simulate", (3500, 60_000), edf_strategy, check_safe), subcheck("multiframe-costs", (600, 30_000), mf_edf_strategy, check_mf)],
        extra: None,
    }
}

pub fn def_c03() -> PropertyDef {
    PropertyDef {
        id: "C03",
        rule: format!("{}{}", "task sets as C01 (no priorities), FIFO simulator (non-preemptive, earliest release first, generated tie-breaks among simultaneous releases); the bound returned for the whole set must hold for EVERY job of EVERY task in the canonical dense schedule and 5-7 generated schedules per case. Non-trivial: Ok, >= 2 tasks, some job waited.", MF_RULE),
        assumptions: SIM_ASSUMPTIONS.iter().map(|s| s.to_string()).collect(),
        subchecks: vec![subcheck("simulate", (3000, 60_000), fifo_strategy, check_safe), subcheck("multiframe-costs", (1500, 30_000), mf_fifo_strategy, check_mf)],
        extra: None,
    }
}

// --- C18: tightness ------------------------------------------------------------

fn tight_strategy(tier: Tier) -> BoxedStrategy<Case> {
    case_strategy(tier, vec![Analysis::FpP, Analysis::FpNp, Analysis::Fifo], true, 4)
}

fn check_tight(c: &Case) -> CheckResult {
    let mut out = Outcome::default();
    let ts = &c.tasks;
    let b = guard(|| build_tasks(ts)).map_err(|e| format!("constructing the task set panicked: {}", e))?;
    let res = match guard(|| run_analysis(ts, &b, c.analysis, c.tua, LARGE_LIMIT, None, c.wrap)) {
        Ok(r) => Res::from(r),
        Err(_) => {
            out.label("analysis-panicked(skipped)");
            return Ok(out);
        }
    };
    let bound = match res {
        Res::Ok(r) => r,
        _ => {
            out.label("analysis-err");
            return Ok(out);
        }
    };
    // witness search: canonical adversary first (for FIFO: against every task in turn), then generated schedules
    let mut attained = false;
    let mut first = true;
    let targets: Vec<usize> = if c.analysis == Analysis::Fifo { (0..ts.len()).collect() } else { vec![c.tua] };
    let mut worst_seen = 0;
    for &target in &targets {
        let obs = run_schedules(c, bound, target, true)?;
        out.inner += obs.sims;
        worst_seen = worst_seen.max(obs.worst);
        if obs.worst == bound {
            attained = true;
            if first {
                out.label("first-target-sufficed");
            }
            break;
        }
        first = false;
    }
    if !attained {
        return Err(format!(
            "{}: the analysis returned Ok({}) for task {} but no constructed or generated schedule comes closer than {} (not tight)",
            c.analysis.name(),
            bound,
            c.tua,
            worst_seen
        ));
    }
    out.nontrivial = ts.len() >= 2 && bound > ts[c.tua].wcet;
    out.label(c.analysis.name());
    out.label_if(ts.iter().any(|t| t.arr.has_jitter()), "jitter");
    out.label_if(ts.iter().any(|t| t.arr.has_burst()), "burst");
    Ok(out)
}

pub fn def_c18() -> PropertyDef {
    PropertyDef {
        id: "C18",
        rule: "generated: task sets of 1-4 tasks with exact, realisable curves only (Periodic, Sporadic with jitter up to 4T, extrapolating super-additive delta-min curves), the analysed task, FP-preemptive / FP-non-preemptive / FIFO. Oracle = witness search: the canonical adversary (blocker with the longest WCET released at t0-1, everything densest from t0, all WCET, ties against the analysed task; FIFO: against each task in turn) simulated to the end of the busy window, then 4-6 generated schedules; the case passes iff some job's response time equals the bound (and none exceeds it). Non-trivial: >= 2 tasks and bound > WCET. Distinct by case JSON.".into(),
        assumptions: SIM_ASSUMPTIONS.iter().map(|s| s.to_string()).collect(),
        subchecks: vec![subcheck("witness", (3000, 60_000), tight_strategy, check_tight)],
        extra: None,
    }
}

//! C04 — ECRTS'19 ROS 2 analyses are safe under reservation supply;
//! C05 — RTSS'21 rr / bw analyses are safe for self-consistent bound vectors.

use std::rc::Rc;

use proptest::prelude::*;
use response_time_analysis::demand::{self, RequestBound, RBF};
use response_time_analysis::ros2::{self, bw, rr};
use response_time_analysis::wcet::{JobCostModel, Scalar};
use serde::{Deserialize, Serialize};

use crate::arr::*;
use crate::cost::*;
use crate::engine::*;
use crate::ros::*;
use crate::supply_ref::*;
use crate::tasks::Res;

const LIMIT: u64 = 3000;

fn ros_gen(tier: Tier) -> RosGen {
    RosGen {
        arr: ArrGen { tmax: tier.pick(30, 40), never: true, plateau_end: true, plain_curves: true, derived: true, acp: false, loose: false, poisson: false, depth: 1 },
        cmax: 6,
        nmax: 4,
        pmax: 8,
        multiframe: false,
    }
}

/// unique priorities: rank by (prio, index)
fn ranks(cbs: &[CbSpec]) -> Vec<i32> {
    let mut idx: Vec<usize> = (0..cbs.len()).collect();
    idx.sort_by_key(|i| (cbs[*i].prio, *i));
    let mut r = vec![0; cbs.len()];
    for (rank, i) in idx.iter().enumerate() {
        r[*i] = rank as i32;
    }
    r
}

/// constructed scenarios in addition to the canonical one: for every callback i, everything else is
/// released densest from t0 and callback i one tick / one callback-length later (it just misses a
/// polling point and is held back across the next one), with the worst-case budget placement
fn targeted_scenarios(n: usize, q: u64, costs: &[u64]) -> Vec<RosSched> {
    let mut v = vec![];
    let longest = costs.iter().copied().max().unwrap_or(1);
    for i in 0..n {
        for late in [1u64, longest, longest + 1] {
            let mut phases = vec![0u64; n];
            phases[i] = late;
            v.push(RosSched { t0: 0, choices: vec![vec![]; n], phases, exec_cut: vec![], placement: Placement::early_then_late(q) });
        }
        // ... and the other way round: callback i first, everything else one tick later
        let mut phases = vec![1u64; n];
        phases[i] = 0;
        v.push(RosSched { t0: 0, choices: vec![vec![]; n], phases, exec_cut: vec![], placement: Placement::early_then_late(q) });
    }
    v
}

/// two callbacks missing consecutive polling points: callback i arrives one tick after the
/// callbacks released at t0 were polled (so it is held back until the next polling point), and
/// callback j one tick after that next polling point (on a dedicated processor: when the first
/// polling window's callbacks have run), so that instances carried across a polling point and
/// fresh instances of i meet ahead of j
fn pair_scenarios(n: usize, q: u64, costs: &[u64]) -> Vec<RosSched> {
    let mut v = vec![];
    if n < 3 {
        return v;
    }
    for i in 0..n {
        for j in 0..n {
            if i == j {
                continue;
            }
            let first_window: u64 = (0..n).filter(|k| *k != i && *k != j).map(|k| costs[k]).sum();
            let mut phases = vec![0u64; n];
            phases[i] = 1;
            phases[j] = first_window + 1;
            v.push(RosSched { t0: 0, choices: vec![vec![]; n], phases, exec_cut: vec![], placement: Placement::early_then_late(q) });
        }
    }
    v
}

fn scalar(c: &CostSpec) -> u64 {
    match c {
        CostSpec::Scalar { c } => *c,
        _ => panic!("harness bug: scalar costs only"),
    }
}

type R = RBF<Ab, Scalar>;
fn rbf(a: &ArrSpec, c: u64) -> R {
    RBF::new(a.build(), Scalar::new(s(c)))
}
type Rc04 = RBF<Ab, Cm>;
fn rbf_c(a: &ArrSpec, c: &CostSpec) -> Rc04 {
    RBF::new(a.build(), c.build())
}

// --- C04 ---------------------------------------------------------------------------

#[derive(Clone, Debug, Serialize, Deserialize)]
pub struct ChainSpec {
    pub source: ArrSpec,
    /// (cost, priority) of the polled chain members, in chain order
    pub members: Vec<(u64, i32)>,
}

#[derive(Clone, Debug, Serialize, Deserialize)]
pub struct C04Case {
    pub wl: Workload,
    pub chain: Option<ChainSpec>,
    pub limit: u64,
    pub scheds: Vec<RosSched>,
}

fn c04_strategy(tier: Tier) -> BoxedStrategy<C04Case> {
    c04_strategy_g(ros_gen(tier))
}

/// callbacks with wcet::Multiframe costs (non-increasing frames, so that the first n frames bound
/// any n consecutive instances); chain-free workloads only
fn c04_mf_strategy(tier: Tier) -> BoxedStrategy<C04Case> {
    c04_strategy_g(RosGen { multiframe: true, ..ros_gen(tier) })
        .prop_map(|mut c| {
            c.chain = None;
            c.scheds.truncate(6);
            for cb in c.wl.cbs.iter_mut() {
                if let CostSpec::Multiframe { costs } = &mut cb.cost {
                    costs.sort_unstable_by(|a, b| b.cmp(a));
                }
            }
            c
        })
        .boxed()
}

fn c04_strategy_g(g: RosGen) -> BoxedStrategy<C04Case> {
    let chain = prop_oneof![
        3 => Just(None),
        2 => (arr_strategy(ArrGen { never: false, ..g.arr }), proptest::collection::vec((1u64..=5, 0i32..8), 1..=4))
            .prop_map(|(mut source, members)| {
                // chains are triggered rarely enough
                stretch(&mut source, 2);
                Some(ChainSpec { source, members })
            }),
    ];
    (workload_strategy(g, 300, 1000), chain, prop_oneof![4 => Just(LIMIT), 1 => 1u64..200])
        .prop_flat_map(|(wl, chain, limit)| {
            let n = wl.cbs.len() + chain.as_ref().map(|c| c.members.len()).unwrap_or(0);
            (Just(wl), Just(chain), Just(limit), proptest::collection::vec(ros_sched_strategy(n), 4..8))
        })
        .prop_map(|(wl, chain, limit, scheds)| C04Case { wl, chain, limit, scheds })
        .boxed()
}

fn check_c04(c: &C04Case) -> CheckResult {
    let mut out = Outcome::default();
    let cbs = &c.wl.cbs;
    let n0 = cbs.len();
    let sup = c.wl.supply.build();
    // all callbacks: externally triggered ones, then the chain members
    let mut kinds: Vec<CbKind> = cbs.iter().map(|c| c.kind).collect();
    // scalar or multiframe cost models; `costs` holds each callback's largest single cost
    for cb in cbs {
        match &cb.cost {
            CostSpec::Scalar { .. } => {}
            CostSpec::Multiframe { costs } if !costs.is_empty() && costs.windows(2).all(|w| w[0] >= w[1]) && *costs.last().unwrap() >= 1 => {}
            _ => {
                out.label("cost-model-not-simulated(skipped)");
                return Ok(out);
            }
        }
    }
    let mut cost_specs: Vec<CostSpec> = cbs.iter().map(|c| c.cost.clone()).collect();
    let mut costs: Vec<u64> = cbs.iter().map(|c| c.cost.wcet()).collect();
    let mut prio_in: Vec<i32> = cbs.iter().map(|c| c.prio).collect();
    let mut next: Vec<Option<usize>> = vec![None; n0];
    if let Some(ch) = &c.chain {
        for (k, (cost, prio)) in ch.members.iter().enumerate() {
            kinds.push(CbKind::Polled);
            costs.push(*cost);
            cost_specs.push(CostSpec::Scalar { c: *cost });
            prio_in.push(*prio);
            next.push(if k + 1 < ch.members.len() { Some(n0 + k + 1) } else { None });
        }
    }
    let n = kinds.len();
    // unique priorities
    let mut idx: Vec<usize> = (0..n).collect();
    idx.sort_by_key(|i| (prio_in[*i], *i));
    let mut prios = vec![0i32; n];
    for (rank, i) in idx.iter().enumerate() {
        prios[*i] = rank as i32;
    }
    // bounds
    let mut bounds: Vec<Option<u64>> = vec![None; n];
    let mut chain_bound: Option<u64> = None;
    let limit = d(c.limit);
    let r = guard(|| {
        let rbfs: Vec<Rc04> = (0..n0).map(|i| rbf_c(&cbs[i].arr, &cost_specs[i])).collect();
        if let Some(ch) = &c.chain {
            let k = ch.members.len();
            let last = rbf(&ch.source, costs[n - 1]);
            let pre: u64 = costs[n0..n - 1].iter().sum();
            let tot: u64 = costs[n0..n].iter().sum();
            let full = rbf(&ch.source, tot);
            let others = demand::Aggregate::new(rbfs.clone());
            let res = if k == 1 {
                // a chain of one callback: empty prefix
                let prefix: demand::Aggregate<R> = demand::Aggregate::new(vec![]);
                ros2::rta_processing_chain(&sup, &last, &prefix, &full, &others, limit)
            } else {
                let prefix = rbf(&ch.source, pre);
                ros2::rta_processing_chain(&sup, &last, &prefix, &full, &others, limit)
            };
            chain_bound = Res::from(res).ok();
        } else {
            for i in 0..n0 {
                let res = if kinds[i] == CbKind::Timer {
                    let hp: Vec<Rc04> = (0..n0).filter(|k| kinds[*k] == CbKind::Timer && prios[*k] < prios[i]).map(|k| rbfs[k].clone()).collect();
                    let blk = (0..n0)
                        .filter(|k| *k != i && !(kinds[*k] == CbKind::Timer && prios[*k] < prios[i]))
                        .map(|k| costs[k])
                        .max()
                        .unwrap_or(0)
                        .saturating_sub(1);
                    ros2::rta_timer(&sup, &rbfs[i], &demand::Aggregate::new(hp), s(blk), limit)
                } else {
                    let ot: Vec<&Rc04> = (0..n0).filter(|k| *k != i).map(|k| &rbfs[k]).collect();
                    ros2::rta_polling_point_callback(&sup, &rbfs[i], &demand::Aggregate::new(ot), limit)
                };
                bounds[i] = Res::from(res).ok();
            }
        }
    });
    if r.is_err() {
        out.label("analysis-panicked(skipped)");
        return Ok(out);
    }
    if bounds.iter().all(|b| b.is_none()) && chain_bound.is_none() {
        out.label("all-err");
        return Ok(out);
    }
    // simulate
    let maxr = bounds.iter().flatten().copied().chain(chain_bound).max().unwrap_or(1);
    let maxscale = cbs.iter().map(|c| c.arr.scale().min(200)).chain(c.chain.iter().map(|c| c.source.scale().min(200))).max().unwrap_or(1);
    let span = (4 * maxr + 3 * maxscale + 50).min(1500);
    let (q, _, _) = c.wl.supply.qdp().unwrap();
    let mut all = vec![ros_canonical(n, q)];
    all.extend(targeted_scenarios(n, q, &costs));
    all.extend(pair_scenarios(n, q, &costs));
    all.extend(c.scheds.iter().cloned());
    let sources: Vec<Option<&ArrSpec>> = (0..n)
        .map(|i| if i < n0 { Some(&cbs[i].arr) } else if i == n0 { c.chain.as_ref().map(|c| &c.source) } else { None })
        .collect();
    let cost_refs: Vec<&CostSpec> = cost_specs.iter().collect();
    let mut waited = false;
    let mut attained = false;
    for sc in &all {
        let (arrivals, exec) = ros_concretise(&sources, &cost_refs, sc, span);
        let slots = place_for(&c.wl.supply, &sc.placement, (sc.t0 + span) as usize);
        let so = ros_simulate(&RosSimIn { kinds: &kinds, prios: &prios, arrivals: &arrivals, exec: &exec, next: &next, supply: &slots });
        out.inner += 1;
        for i in 0..n0 {
            if let Some(b) = bounds[i] {
                for (a, resp) in so.done[i].iter().chain(so.unfinished[i].iter()) {
                    if *resp > b {
                        return Err(format!(
                            "{} callback {} (cost {}): an instance arriving at {} has response time >= {} but the analysis returned Ok({}) (supply {:?}, scenario {:?})",
                            if kinds[i] == CbKind::Timer { "timer" } else { "polling-point" },
                            i,
                            costs[i],
                            a,
                            resp,
                            b,
                            c.wl.supply,
                            sc
                        ));
                    }
                    if *resp == b {
                        attained = true;
                    }
                }
                if so.done[i].iter().any(|(_, r)| *r > costs[i]) {
                    waited = true;
                }
            }
        }
        if let Some(b) = chain_bound {
            for (src, resp) in &so.chain_done {
                if *resp > b {
                    return Err(format!(
                        "processing chain: the instance whose source event arrived at {} completes after {} but the analysis returned Ok({}) (supply {:?}, scenario {:?})",
                        src, resp, b, c.wl.supply, sc
                    ));
                }
                if *resp == b {
                    attained = true;
                }
            }
            // instances of the chain still in flight at the end
            for i in n0..n {
                for (a, age) in &so.unfinished[i] {
                    if *age > b {
                        return Err(format!("processing chain: member {} activated at {} is still unfinished after {} > Ok({})", i - n0, a, age, b));
                    }
                }
            }
            let tot: u64 = costs[n0..n].iter().sum();
            if so.chain_done.iter().any(|(_, r)| *r > tot) {
                waited = true;
            }
        }
    }
    out.nontrivial = (n >= 2 || !c.wl.supply.is_dedicated()) && waited;
    out.label_if(attained, "bound-attained");
    out.label_if(c.chain.is_some(), "chain");
    out.label_if(!c.wl.supply.is_dedicated(), "reservation");
    out.label_if(c.limit != LIMIT, "small-limit");
    let varied = cbs.iter().any(|cb| matches!(&cb.cost, CostSpec::Multiframe { costs } if costs.iter().any(|x| *x != costs[0])));
    out.label_if(varied, "varied-frame-costs");
    if cbs.iter().any(|cb| !cb.cost.is_scalar()) {
        // the multiframe sub-check counts only cases in which the frames really differ
        out.nontrivial = out.nontrivial && varied;
    }
    Ok(out)
}

// --- event source -------------------------------------------------------------------

#[derive(Clone, Debug, Serialize, Deserialize)]
pub struct EvCase {
    pub streams: Vec<(ArrSpec, u64)>,
    pub supply: SupplySpec,
    pub limit: u64,
    pub scheds: Vec<RosSched>,
}

fn ev_strategy(tier: Tier) -> BoxedStrategy<EvCase> {
    let g = ros_gen(tier);
    (workload_strategy(g, 300, 1000), prop_oneof![4 => Just(LIMIT), 1 => 1u64..200])
        .prop_flat_map(|(wl, limit)| {
            let n = wl.cbs.len();
            (Just(wl), Just(limit), proptest::collection::vec(ros_sched_strategy(n), 3..6))
        })
        .prop_map(|(wl, limit, scheds)| EvCase {
            streams: wl.cbs.iter().map(|c| (c.arr.clone(), scalar(&c.cost))).collect(),
            supply: wl.supply,
            limit,
            scheds,
        })
        .boxed()
}

fn check_ev(c: &EvCase) -> CheckResult {
    let mut out = Outcome::default();
    let n = c.streams.len();
    let sup = c.supply.build();
    let res = guard(|| {
        let rbfs: Vec<R> = c.streams.iter().map(|(a, k)| rbf(a, *k)).collect();
        ros2::rta_event_source(&sup, &demand::Aggregate::new(rbfs), d(c.limit))
    });
    let bound = match res {
        Ok(r) => match Res::from(r) {
            Res::Ok(b) => b,
            _ => {
                out.label("err");
                return Ok(out);
            }
        },
        Err(_) => {
            out.label("analysis-panicked(skipped)");
            return Ok(out);
        }
    };
    let maxscale = c.streams.iter().map(|(a, _)| a.scale().min(200)).max().unwrap_or(1);
    let span = (4 * bound + 3 * maxscale + 50).min(1500);
    let (q, _, _) = c.supply.qdp().unwrap();
    let mut all = vec![ros_canonical(n, q)];
    all.extend(c.scheds.iter().cloned());
    let sources: Vec<Option<&ArrSpec>> = c.streams.iter().map(|(a, _)| Some(a)).collect();
    let cost_specs: Vec<CostSpec> = c.streams.iter().map(|(_, k)| CostSpec::Scalar { c: *k }).collect();
    let cost_refs: Vec<&CostSpec> = cost_specs.iter().collect();
    let mut waited = false;
    let mut attained = false;
    for sc in &all {
        let (arrivals, exec) = ros_concretise(&sources, &cost_refs, sc, span);
        let slots = place_for(&c.supply, &sc.placement, (sc.t0 + span) as usize);
        // FIFO service of all events inside the reservation
        let mut jobs: Vec<(u64, usize, u64)> = vec![]; // (arrival, stream, exec)
        for i in 0..n {
            for (k, a) in arrivals[i].iter().enumerate() {
                jobs.push((*a, i, exec[i][k % exec[i].len()]));
            }
        }
        jobs.sort();
        let mut t = 0usize;
        let h = slots.len();
        out.inner += 1;
        for (a, i, e) in jobs {
            t = t.max(a as usize);
            let mut rem = e;
            while rem > 0 && t < h {
                if slots[t] {
                    rem -= 1;
                }
                t += 1;
            }
            let resp = if rem == 0 { t as u64 - a } else { h as u64 - a };
            if resp > bound {
                return Err(format!(
                    "event source: an event of stream {} arriving at {} is served after >= {} but the analysis returned Ok({}) (supply {:?}, scenario {:?})",
                    i, a, resp, bound, c.supply, sc
                ));
            }
            if rem == 0 && resp == bound {
                attained = true;
            }
            if rem == 0 && resp > e {
                waited = true;
            }
            if rem > 0 {
                break;
            }
        }
    }
    out.nontrivial = (n >= 2 || !c.supply.is_dedicated()) && waited;
    out.label_if(attained, "bound-attained");
    out.label_if(!c.supply.is_dedicated(), "reservation");
    Ok(out)
}

pub fn def_c04() -> PropertyDef {
    PropertyDef {
        id: "C04",
        rule: "generated: executor workloads of 1-4 externally triggered callbacks (timers / polled, unique priorities, scalar costs <= 6, arrival specs as C01 incl. jitter > period, bursts, Never) and optionally a processing chain of 1-4 polled callbacks triggered by one source; supply Dedicated / Periodic(Q,P) / Constrained(Q,D,P) with P <= 8; utilisation steered to 0.3-1.0 of the reservation's bandwidth; limit 3000 or small. Calls: rta_timer (interference = higher-priority timers, blocking = longest other callback - 1) and rta_polling_point_callback (interference = all other callbacks) for every callback of chain-free workloads, rta_processing_chain (last / prefix / full with the source curve, others = all externally triggered callbacks) otherwise; a separate sub-check runs rta_event_source against FIFO service of the streams inside the reservation. Per case: the canonical scenario (everything densest from t0, all WCET, budget early in the first period then late, timeline starting right after the early budget), 4 targeted scenarios per callback (that callback released 1 / longest / longest+1 ticks after everything else, or everything else one tick after it), for >= 3 callbacks one scenario per ordered pair (i, j) in which i arrives one tick after t0 and j one tick after the first polling window (two callbacks missing consecutive polling points), plus 4-7 generated scenarios (release decisions, phases, execution-time cuts, budget placement per period, phase of the reservation). Sub-check multiframe-costs: chain-free workloads whose callbacks carry wcet::Multiframe costs (2-4 frames in non-increasing order, so that the first n frames bound any n consecutive instances; instance k costs at most frame k mod len); same calls and oracle; non-trivial there additionally requires two different frame costs. Oracle: executor + reservation simulator (ros.rs); no instance (chains: source arrival to completion of the last callback) may exceed Ok(R). Non-trivial: >= 2 callbacks or a non-dedicated supply, and some instance waited. Distinct by case JSON.".into(),
        assumptions: vec![
            "executor model of ros.rs (timers first by priority; polled callbacks once per polling window from a ready set refreshed only when empty; non-preemptive; chain successors activated at completion); scalar execution-time bounds (multiframe-costs sub-check: per-instance bounds taken cyclically from the frame vector)".into(),
            "a reservation delivers exactly its budget in every period, anywhere within the first D slots".into(),
            "individual callback bounds are checked on chain-free workloads only (a chain member's activation curve is not an input of those analyses)".into(),
        ],
        subchecks: vec![
            subcheck("executor", (1500, 40_000), c04_strategy, check_c04),
            subcheck("event-source", (1000, 30_000), ev_strategy, check_ev),
            subcheck("multiframe-costs", (4000, 60_000), c04_mf_strategy, check_c04),
        ],
        extra: None,
    }
}

// --- C05 ---------------------------------------------------------------------------

#[derive(Clone, Debug, Serialize, Deserialize)]
pub struct C05Case {
    pub wl: Workload,
    pub use_bw: bool,
    pub scheds: Vec<RosSched>,
}

fn c05_strategy(tier: Tier) -> BoxedStrategy<C05Case> {
    c05_strategy_g(ros_gen(tier))
}

/// callbacks with non-increasing wcet::Multiframe costs (see c04_mf_strategy)
fn c05_mf_strategy(tier: Tier) -> BoxedStrategy<C05Case> {
    c05_strategy_g(RosGen { multiframe: true, ..ros_gen(tier) })
        .prop_map(|mut c| {
            for cb in c.wl.cbs.iter_mut() {
                if let CostSpec::Multiframe { costs } = &mut cb.cost {
                    costs.sort_unstable_by(|a, b| b.cmp(a));
                }
            }
            c
        })
        .boxed()
}

fn c05_strategy_g(g: RosGen) -> BoxedStrategy<C05Case> {
    (workload_strategy(g, 200, 850), any::<bool>())
        .prop_flat_map(|(wl, use_bw)| {
            let n = wl.cbs.len();
            (Just(wl), Just(use_bw), proptest::collection::vec(ros_sched_strategy(n), 4..8))
        })
        .prop_map(|(wl, use_bw, scheds)| C05Case { wl, use_bw, scheds })
        .boxed()
}

pub fn declared_kind(cb: &CbSpec, rank: i32) -> rr::CallbackType {
    match (cb.kind, cb.declared) {
        (CbKind::Timer, _) => rr::CallbackType::Timer,
        (CbKind::Polled, Declared::Known) => rr::CallbackType::Polled(rank),
        (CbKind::Polled, Declared::Unknown) => rr::CallbackType::PolledUnknownPrio,
    }
}

/// iterate the singleton-subchain analysis upwards from the WCETs until the bound vector reproduces itself
pub fn self_consistent_bounds(wl: &Workload, prios: &[i32], use_bw: bool, limit: u64) -> Result<Option<Vec<u64>>, String> {
    let cbs = &wl.cbs;
    let n = cbs.len();
    let sup = wl.supply.build();
    let arrs: Vec<Ab> = cbs.iter().map(|c| c.arr.build()).collect();
    let costs: Vec<Rc<dyn JobCostModel>> = cbs.iter().map(|c| c.cost.build()).collect();
    let mut r: Vec<u64> = cbs.iter().map(|c| c.cost.wcet()).collect();
    for _ in 0..400 {
        let mut nr = r.clone();
        let res: Result<bool, String> = guard(|| {
            if use_bw {
                let wlv: Vec<_> = (0..n).map(|i| bw::Callback::new(d(r[i]), &arrs[i], &costs[i], declared_kind(&cbs[i], prios[i]))).collect();
                for i in 0..n {
                    match bw::rta_subchain(&sup, &wlv[..], &[&wlv[i]], d(limit)) {
                        Ok(x) => nr[i] = du(x).max(r[i]),
                        Err(_) => return false,
                    }
                }
            } else {
                let wlv: Vec<_> = (0..n).map(|i| rr::Callback::new(d(r[i]), &arrs[i], &costs[i], declared_kind(&cbs[i], prios[i]))).collect();
                for i in 0..n {
                    match rr::rta_subchain(&sup, &wlv[..], &[&wlv[i]], d(limit)) {
                        Ok(x) => nr[i] = du(x).max(r[i]),
                        Err(_) => return false,
                    }
                }
            }
            true
        });
        match res {
            Err(e) => return Err(e),
            Ok(false) => return Ok(None),
            Ok(true) => {}
        }
        if nr == r {
            return Ok(Some(r));
        }
        if nr.iter().any(|x| *x > limit) {
            return Ok(None);
        }
        r = nr;
    }
    Ok(None)
}

fn check_c05(c: &C05Case) -> CheckResult {
    let mut out = Outcome::default();
    let cbs = &c.wl.cbs;
    let n = cbs.len();
    let prios = ranks(cbs);
    for cb in cbs {
        match &cb.cost {
            CostSpec::Scalar { .. } => {}
            CostSpec::Multiframe { costs } if !costs.is_empty() && costs.windows(2).all(|w| w[0] >= w[1]) && *costs.last().unwrap() >= 1 => {}
            _ => {
                out.label("cost-model-not-simulated(skipped)");
                return Ok(out);
            }
        }
    }
    let bounds = match self_consistent_bounds(&c.wl, &prios, c.use_bw, LIMIT) {
        Err(_) => {
            out.label("analysis-panicked(skipped)");
            return Ok(out);
        }
        Ok(None) => {
            out.label("no-self-consistent-vector(skipped)");
            return Ok(out);
        }
        Ok(Some(b)) => b,
    };
    let kinds: Vec<CbKind> = cbs.iter().map(|c| c.kind).collect();
    let costs: Vec<u64> = cbs.iter().map(|c| c.cost.wcet()).collect();
    let next = vec![None; n];
    let maxr = *bounds.iter().max().unwrap();
    let maxscale = cbs.iter().map(|c| c.arr.scale().min(200)).max().unwrap_or(1);
    let span = (4 * maxr + 3 * maxscale + 50).min(1500);
    let (q, _, _) = c.wl.supply.qdp().unwrap();
    let mut all = vec![ros_canonical(n, q)];
    all.extend(targeted_scenarios(n, q, &costs));
    all.extend(pair_scenarios(n, q, &costs));
    all.extend(c.scheds.iter().cloned());
    let sources: Vec<Option<&ArrSpec>> = cbs.iter().map(|c| Some(&c.arr)).collect();
    let cost_refs: Vec<&CostSpec> = cbs.iter().map(|c| &c.cost).collect();
    let mut waited_polls = 0;
    let mut attained = false;
    for sc in &all {
        let (arrivals, exec) = ros_concretise(&sources, &cost_refs, sc, span);
        let slots = place_for(&c.wl.supply, &sc.placement, (sc.t0 + span) as usize);
        let so = ros_simulate(&RosSimIn { kinds: &kinds, prios: &prios, arrivals: &arrivals, exec: &exec, next: &next, supply: &slots });
        out.inner += 1;
        waited_polls += so.waited_polls;
        for i in 0..n {
            for (a, resp) in so.done[i].iter().chain(so.unfinished[i].iter()) {
                if *resp > bounds[i] {
                    return Err(format!(
                        "{} analysis: callback {} ({:?}, declared {:?}, cost {}): an instance arriving at {} has response time >= {} but its self-consistent bound is {} (bound vector {:?}, supply {:?}, scenario {:?})",
                        if c.use_bw { "bw" } else { "rr" },
                        i,
                        kinds[i],
                        cbs[i].declared,
                        costs[i],
                        a,
                        resp,
                        bounds[i],
                        bounds,
                        c.wl.supply,
                        sc
                    ));
                }
                if *resp == bounds[i] {
                    attained = true;
                }
            }
        }
    }
    out.nontrivial = n >= 2 && kinds.iter().any(|k| *k == CbKind::Polled) && waited_polls > 0;
    out.label_if(attained, "bound-attained");
    out.label_if(c.use_bw, "bw");
    out.label_if(!c.use_bw, "rr");
    out.label_if(cbs.iter().any(|c| c.kind == CbKind::Polled && c.declared == Declared::Unknown), "unknown-prio");
    out.label_if(!c.wl.supply.is_dedicated(), "reservation");
    let varied = cbs.iter().any(|cb| matches!(&cb.cost, CostSpec::Multiframe { costs } if costs.iter().any(|x| *x != costs[0])));
    out.label_if(varied, "varied-frame-costs");
    if cbs.iter().any(|cb| !cb.cost.is_scalar()) {
        out.nontrivial = out.nontrivial && varied;
    }
    Ok(out)
}

pub fn def_c05() -> PropertyDef {
    PropertyDef {
        id: "C05",
        rule: "generated: workloads of 1-4 callbacks mixing timers, Polled(prio) and PolledUnknownPrio (the declared kind is generated independently of the simulator's true priority order), scalar costs, arrival specs as C01, supply as C04, utilisation steered to 0.2-0.85 of the bandwidth; analysis rr or bw. The self-consistent bound vector is obtained as the property prescribes: start at the WCETs, re-run the singleton-subchain analysis for every callback with the current vector, repeat until nothing changes (divergent / Err vectors are counted and skipped). Per case the canonical scenario, 4 targeted scenarios per callback, the pair scenarios (two callbacks missing consecutive polling points: carried-in and fresh instances of one meet ahead of the other) and 4-7 generated scenarios (as C04). Sub-check multiframe-costs: the same with non-increasing wcet::Multiframe callback costs (instance k costs at most frame k mod len; non-trivial there additionally requires two different frame costs). Oracle: executor + reservation simulator; every instance of every callback must respond within its bound. Non-trivial: converged, >= 2 callbacks of which >= 1 polled, and some polled instance waited through >= 2 polling points. Distinct by case JSON.".into(),
        assumptions: vec![
            "executor model of ros.rs; scalar execution-time bounds (multiframe-costs sub-check: per-instance bounds taken cyclically from the frame vector); all callbacks externally triggered (singleton subchains, as in the property)".into(),
            "a reservation delivers exactly its budget in every period, anywhere within the first D slots".into(),
        ],
        subchecks: vec![subcheck("executor", (1200, 40_000), c05_strategy, check_c05), subcheck("multiframe-costs", (1000, 30_000), c05_mf_strategy, check_c05)],
        extra: None,
    }
}

#[allow(dead_code)]
fn _unused(_: &dyn RequestBound) {}

//! C17 — response-time bounds are monotone in workload and supply.

use proptest::prelude::*;
use serde::{Deserialize, Serialize};

use crate::arr::*;
use crate::cost::*;
use crate::engine::*;
use crate::props::c07::{self, Call19, Case19, Case21};
use crate::supply_ref::*;
use crate::tasks::*;

/// shorten the period of the first Periodic / Sporadic leaf found in the spec
pub fn shorten_period(a: &mut ArrSpec, k: u64) -> bool {
    match a {
        ArrSpec::Periodic { t } | ArrSpec::Sporadic { t, .. } => {
            if *t > 1 {
                *t = (*t).saturating_sub(k).max(1);
                true
            } else {
                false
            }
        }
        ArrSpec::Jittered { inner, .. } | ArrSpec::Propagated { inner, .. } => shorten_period(inner, k),
        ArrSpec::Sum { a, b } => shorten_period(a, k) || shorten_period(b, k),
        ArrSpec::VecOf { items } | ArrSpec::SliceOf { items } => items.iter_mut().any(|x| shorten_period(x, k)),
        _ => false,
    }
}

// --- uniprocessor analyses ----------------------------------------------------------

#[derive(Clone, Debug, Serialize, Deserialize)]
pub enum Harden {
    WcetUp { task: usize, k: u64 },
    JitterUp { task: usize, k: u64 },
    BlockingUp { k: u64 },
    /// lengthen another task's non-preemptive segments (floating region length / merge its segments)
    NpSegUp { task: usize, k: u64 },
    PeriodDown { task: usize, k: u64 },
    AddTask { task: TaskSpec },
    LimitUp { k: u64 },
}

#[derive(Clone, Debug, Serialize, Deserialize)]
pub struct UniCase {
    pub tasks: Vec<TaskSpec>,
    pub tua: usize,
    pub analysis: Analysis,
    /// Some(b): explicit blocking bound for the FP analyses; None: as prescribed from the lower-priority tasks
    pub blocking: Option<u64>,
    pub limit: u64,
    pub harden: Harden,
    /// every time value of both systems (and the limit) is multiplied by this factor (1 = as generated);
    /// with a factor of about 10^3 the limits lie above the threshold up to which the crate's debug
    /// builds cross-check the fixed-point search, so the value path of those builds is exercised
    #[serde(default)]
    pub factor: u64,
    /// Some(x): the limit of both systems is placed at the fraction x / 2^16 of the bound that the harder
    /// system gets under a generous limit (if it gets one), i.e. right where Ok and Err lie close together
    #[serde(default)]
    pub limit_frac: Option<u16>,
}

fn tgen(tier: Tier) -> TaskGen {
    TaskGen {
        arr: ArrGen { tmax: tier.pick(50, 100), never: false, plateau_end: true, plain_curves: true, derived: false, acp: false, loose: false, poisson: false, depth: 1 },
        cmax: 9,
        nmax: 4,
        dfac: 3,
    }
}

fn uni_strategy(tier: Tier) -> BoxedStrategy<UniCase> {
    let g = tgen(tier);
    (
        taskset_strategy(g),
        0usize..4,
        proptest::sample::select(ALL_ANALYSES.to_vec()),
        prop_oneof![1 => Just(None), 1 => (0u64..10).prop_map(Some)],
        prop_oneof![3 => Just(3000u64), 2 => 1u64..300],
        prop_oneof![
            3 => (0usize..4, 1u64..4).prop_map(|(task, k)| Harden::WcetUp { task, k }),
            3 => (0usize..4, 1u64..40).prop_map(|(task, k)| Harden::JitterUp { task, k }),
            1 => (1u64..6).prop_map(|k| Harden::BlockingUp { k }),
            2 => (0usize..4, 1u64..6).prop_map(|(task, k)| Harden::NpSegUp { task, k }),
            2 => (0usize..4, 1u64..10).prop_map(|(task, k)| Harden::PeriodDown { task, k }),
            2 => task_strategy(g, 4).prop_map(|task| Harden::AddTask { task }),
            2 => (1u64..500).prop_map(|k| Harden::LimitUp { k }),
        ],
    )
        .prop_map(|(tasks, tua, analysis, blocking, limit, harden)| {
            let tua = tua % tasks.len();
            UniCase { tasks, tua, analysis, blocking, limit, harden, factor: 1, limit_frac: None }
        })
        .boxed()
}

fn uni_scaled_strategy(tier: Tier) -> BoxedStrategy<UniCase> {
    (uni_strategy(tier), proptest::sample::select(vec![20_011u64, 100_003]), proptest::option::weighted(0.75, any::<u16>()))
        .prop_map(|(mut c, f, frac)| {
            c.factor = f;
            c.limit_frac = frac;
            c
        })
        .boxed()
}

fn scale_tasks(ts: &[TaskSpec], f: u64) -> Vec<TaskSpec> {
    let mut big = ts.to_vec();
    for t in big.iter_mut() {
        crate::ros::stretch(&mut t.arr, f);
        t.wcet *= f;
        t.deadline *= f;
        for sg in t.segs.iter_mut() {
            *sg *= f;
        }
        t.max_np *= f;
    }
    big
}

/// apply the hardening; None if it does not apply to this case
fn harden_uni(c: &UniCase) -> Option<(Vec<TaskSpec>, Option<u64>, u64)> {
    let mut ts = c.tasks.clone();
    let mut blocking = c.blocking;
    let mut limit = c.limit;
    let n = ts.len();
    match &c.harden {
        Harden::WcetUp { task, k } => {
            let i = task % n;
            ts[i].wcet += k;
            // the extra work goes into a non-final segment, so that the last segment keeps its length
            if ts[i].segs.len() >= 2 {
                ts[i].segs[0] += k;
            } else {
                ts[i].segs.insert(0, *k);
            }
        }
        Harden::JitterUp { task, k } => {
            let i = task % n;
            ts[i].arr = ArrSpec::Jittered { inner: ts[i].arr.clone().boxed(), j: *k };
        }
        Harden::BlockingUp { k } => {
            if !matches!(c.analysis, Analysis::FpNp | Analysis::FpLp | Analysis::FpFl) {
                return None;
            }
            let base = blocking.unwrap_or_else(|| fp_blocking(&ts, c.tua, c.analysis));
            blocking = Some(base + k);
        }
        Harden::NpSegUp { task, k } => {
            let i = task % n;
            if i == c.tua {
                return None;
            }
            // floating regions may become longer (within the WCET); fixed segments are merged
            ts[i].max_np = (ts[i].max_np + k).min(ts[i].wcet);
            ts[i].segs = vec![ts[i].wcet];
        }
        Harden::PeriodDown { task, k } => {
            let i = task % n;
            if !shorten_period(&mut ts[i].arr, *k) {
                return None;
            }
        }
        Harden::AddTask { task } => ts.push(task.clone()),
        Harden::LimitUp { k } => limit += k,
    }
    Some((ts, blocking, limit))
}

fn run_uni(ts: &[TaskSpec], an: Analysis, tua: usize, limit: u64, blocking: Option<u64>) -> Result<Res, String> {
    guard(|| {
        let b = build_tasks(ts);
        Res::from(run_analysis(ts, &b, an, tua, limit, blocking, Wrap::Plain))
    })
}

fn judge(what: &str, base: &Res, hard: &Res, limit_up: bool) -> Result<(), String> {
    match (base, hard) {
        (Res::Ok(b), Res::Ok(h)) => {
            if limit_up && h != b {
                return Err(format!("raising the limit changed an Ok result: {} -> {}", b, h));
            }
            if h < b {
                return Err(format!("{}: the bound DEcreased from {} to {} although the system became harder", what, b, h));
            }
            Ok(())
        }
        (Res::Ok(b), _) if limit_up => Err(format!("raising the limit turned Ok({}) into {:?}", b, hard)),
        (Res::Ok(_), _) => Ok(()),
        (_, Res::Ok(h)) if !limit_up => Err(format!("{}: the base system diverges ({:?}) but the harder one returns Ok({})", what, base, h)),
        _ => Ok(()),
    }
}

fn check_uni(c: &UniCase) -> CheckResult {
    let mut out = Outcome::default();
    let (hts, hblk, hlim) = match harden_uni(c) {
        Some(x) => x,
        None => {
            out.label("hardening-not-applicable");
            return Ok(out);
        }
    };
    // FIFO and the EDF analyses have no blocking parameter / priorities
    let f = c.factor.max(1);
    if f > 1 {
        // the same metamorphic relation on the systems with every time value multiplied by f
        let (mut blim, mut hlim) = (c.limit, hlim);
        let mut placed = false;
        if let (Some(x), false) = (c.limit_frac, matches!(c.harden, Harden::LimitUp { .. })) {
            if let Ok(Res::Ok(r)) = run_uni(&hts, c.analysis, c.tua, 3000, hblk) {
                blim = 1 + ((x as u64 * r) >> 16);
                hlim = blim;
                placed = true;
            }
        }
        let base = run_uni(&scale_tasks(&c.tasks, f), c.analysis, c.tua, blim * f, c.blocking.map(|b| b * f));
        let hard = run_uni(&scale_tasks(&hts, f), c.analysis, c.tua, hlim * f, hblk.map(|b| b * f));
        out.label_if(placed, "limit-placed-below-the-harder-bound");
        let (base, hard) = match (base, hard) {
            (Ok(b), Ok(h)) => (b, h),
            _ => {
                out.label("analysis-panicked(skipped)");
                return Ok(out);
            }
        };
        judge(
            &format!("{} under {:?}, every time value and the limit {} multiplied by {}", c.analysis.name(), c.harden, blim, f),
            &base,
            &hard,
            matches!(c.harden, Harden::LimitUp { .. }),
        )?;
        out.inner += 2;
        out.nontrivial = base.ok().is_some() && hard.ok().is_some() && hard != base;
        out.label_if(base.is_err(), "base-err");
        out.label_if(base.ok().is_some() && hard.is_err(), "ok-to-err");
        out.label_if(blim * f > 100_000, "limit>10^5");
        return Ok(out);
    }
    let base = run_uni(&c.tasks, c.analysis, c.tua, c.limit, c.blocking);
    let hard = run_uni(&hts, c.analysis, c.tua, hlim, hblk);
    let (base, hard) = match (base, hard) {
        (Ok(b), Ok(h)) => (b, h),
        _ => {
            out.label("analysis-panicked(skipped)");
            return Ok(out);
        }
    };
    judge(&format!("{} under {:?}", c.analysis.name(), c.harden), &base, &hard, matches!(c.harden, Harden::LimitUp { .. }))?;
    // period / jitter hardenings move the examined offsets around: follow a whole chain of
    // increasingly hard systems and demand monotonicity along it
    if let Harden::JitterUp { task, k } | Harden::PeriodDown { task, k } = &c.harden {
        let mut prev = hard.clone();
        for step in 1..=8u64 {
            let mut c2 = c.clone();
            c2.harden = match &c.harden {
                Harden::JitterUp { .. } => Harden::JitterUp { task: *task, k: k + step },
                _ => Harden::PeriodDown { task: *task, k: k + step },
            };
            let (ts2, b2, l2) = match harden_uni(&c2) {
                Some(x) => x,
                None => break,
            };
            let next = match run_uni(&ts2, c.analysis, c.tua, l2, b2) {
                Ok(r) => r,
                Err(_) => break,
            };
            judge(&format!("{} under {:?} (after {:?})", c.analysis.name(), c2.harden, c.harden), &prev, &next, false)?;
            if next == prev && step > 3 {
                // nothing moves any more (e.g. the period reached 1)
            }
            prev = next;
            out.inner += 1;
        }
    }
    if let (Harden::LimitUp { k }, Res::Ok(_)) = (&c.harden, &base) {
        // a ladder of larger limits: every one of them must reproduce the Ok exactly
        for extra in [1u64, 2, 3, 5, 8, 13, 21, 34, 55, 89, 144, k + 233, 3 * k + 1000] {
            let again = match run_uni(&c.tasks, c.analysis, c.tua, c.limit + extra, c.blocking) {
                Ok(r) => r,
                Err(_) => break,
            };
            judge(&format!("{} with limit {} + {}", c.analysis.name(), c.limit, extra), &base, &again, true)?;
            out.inner += 1;
        }
    }
    out.inner += 2;
    out.nontrivial = base.ok().is_some() && hard.ok().is_some() && hard != base;
    out.label_if(base.is_err(), "base-err");
    out.label_if(base.ok().is_some() && hard.is_err(), "ok-to-err");
    out.label(match c.harden {
        Harden::WcetUp { .. } => "wcet-up",
        Harden::JitterUp { .. } => "jitter-up",
        Harden::BlockingUp { .. } => "blocking-up",
        Harden::NpSegUp { .. } => "np-segment-up",
        Harden::PeriodDown { .. } => "period-down",
        Harden::AddTask { .. } => "add-task",
        Harden::LimitUp { .. } => "limit-up",
    });
    out.label(c.analysis.name());
    Ok(out)
}

// --- ROS 2 analyses -------------------------------------------------------------------

#[derive(Clone, Debug, Serialize, Deserialize)]
pub enum RosHarden {
    CostUp { who: usize, k: u64 },
    JitterUp { who: usize, k: u64 },
    BlockingUp { k: u64 },
    PeriodDown { who: usize, k: u64 },
    AddCallback { arr: ArrSpec, cost: u64 },
    /// budget - 1 (keeps budget >= 1)
    BudgetDown,
    /// constrained deadline + 1 (<= period)
    DeadlineUp,
    /// dedicated -> Periodic(q, p)
    Reserve { q: u64, p: u64 },
    LimitUp { k: u64 },
}

#[derive(Clone, Debug, Serialize, Deserialize)]
pub enum RosBase {
    E19(Case19),
    R21(Case21),
}

#[derive(Clone, Debug, Serialize, Deserialize)]
pub struct RosCase {
    pub base: RosBase,
    pub limit: u64,
    pub harden: RosHarden,
}

fn scalarise(c: CostSpec) -> CostSpec {
    match c {
        CostSpec::Scalar { c } => CostSpec::Scalar { c },
        other => CostSpec::Scalar { c: other.wcet().max(1) },
    }
}

fn ros_strategy(tier: Tier) -> BoxedStrategy<RosCase> {
    (
        prop_oneof![
            c07::strategy19(tier).prop_map(|mut k| {
                k.own.1 = scalarise(k.own.1);
                for o in k.others.iter_mut() {
                    o.1 = scalarise(o.1.clone());
                }
                RosBase::E19(k)
            }),
            c07::strategy21(tier).prop_map(|mut k| {
                for cb in k.cbs.iter_mut() {
                    cb.cost = scalarise(cb.cost.clone());
                }
                RosBase::R21(k)
            }),
        ],
        prop_oneof![3 => Just(1400u64), 2 => 1u64..300],
        prop_oneof![
            3 => (0usize..4, 1u64..4).prop_map(|(who, k)| RosHarden::CostUp { who, k }),
            3 => (0usize..4, 1u64..40).prop_map(|(who, k)| RosHarden::JitterUp { who, k }),
            1 => (1u64..6).prop_map(|k| RosHarden::BlockingUp { k }),
            2 => (0usize..4, 1u64..10).prop_map(|(who, k)| RosHarden::PeriodDown { who, k }),
            2 => (leaf_strategy(ArrGen::basic(60)), 1u64..6).prop_map(|(arr, cost)| RosHarden::AddCallback { arr, cost }),
            2 => Just(RosHarden::BudgetDown),
            1 => Just(RosHarden::DeadlineUp),
            2 => (1u64..8).prop_flat_map(|p| (1..=p, Just(p))).prop_map(|(q, p)| RosHarden::Reserve { q, p }),
            4 => (1u64..500).prop_map(|k| RosHarden::LimitUp { k }),
        ],
    )
        .prop_map(|(base, limit, harden)| RosCase { base, limit, harden })
        .boxed()
}

fn harden_supply(sp: &SupplySpec, h: &RosHarden) -> Option<SupplySpec> {
    match (h, sp) {
        (RosHarden::BudgetDown, SupplySpec::Periodic { q, p }) if *q > 1 => Some(SupplySpec::Periodic { q: q - 1, p: *p }),
        (RosHarden::BudgetDown, SupplySpec::Constrained { q, d, p }) if *q > 1 => Some(SupplySpec::Constrained { q: q - 1, d: *d, p: *p }),
        (RosHarden::DeadlineUp, SupplySpec::Constrained { q, d, p }) if d < p => Some(SupplySpec::Constrained { q: *q, d: d + 1, p: *p }),
        (RosHarden::Reserve { q, p }, SupplySpec::Dedicated) => Some(SupplySpec::Periodic { q: *q, p: *p }),
        _ => None,
    }
}

fn harden_arr(a: &mut ArrSpec, h: &RosHarden) -> bool {
    match h {
        RosHarden::JitterUp { k, .. } => {
            *a = ArrSpec::Jittered { inner: a.clone().boxed(), j: *k };
            true
        }
        RosHarden::PeriodDown { k, .. } => shorten_period(a, *k),
        _ => false,
    }
}

fn cost_up(c: &mut CostSpec, k: u64) {
    if let CostSpec::Scalar { c } = c {
        *c += k;
    }
}

fn check_ros(c: &RosCase) -> CheckResult {
    let mut out = Outcome::default();
    let mut hlimit = c.limit;
    let (base_res, hard_res) = match &c.base {
        RosBase::E19(k) => {
            let mut h = k.clone();
            let mut hsup = k.supply.clone();
            let n = 1 + h.others.len();
            match &c.harden {
                RosHarden::CostUp { who, k: dk } => {
                    let i = who % n;
                    if i == 0 {
                        cost_up(&mut h.own.1, *dk)
                    } else {
                        cost_up(&mut h.others[i - 1].1, *dk)
                    }
                }
                RosHarden::JitterUp { who, .. } | RosHarden::PeriodDown { who, .. } => {
                    let i = who % n;
                    let ok = if i == 0 { harden_arr(&mut h.own.0, &c.harden) } else { harden_arr(&mut h.others[i - 1].0, &c.harden) };
                    if !ok {
                        out.label("hardening-not-applicable");
                        return Ok(out);
                    }
                }
                RosHarden::BlockingUp { k: dk } => match &mut h.call {
                    Call19::Timer { blocking } => *blocking += dk,
                    _ => {
                        out.label("hardening-not-applicable");
                        return Ok(out);
                    }
                },
                RosHarden::AddCallback { arr, cost } => h.others.push((arr.clone(), CostSpec::Scalar { c: *cost })),
                RosHarden::LimitUp { k: dk } => hlimit += dk,
                sup_h => match harden_supply(&k.supply, sup_h) {
                    Some(s2) => hsup = s2,
                    None => {
                        out.label("hardening-not-applicable");
                        return Ok(out);
                    }
                },
            }
            (guard(|| c07::run19(k, &k.supply, c.limit)), guard(|| c07::run19(&h, &hsup, hlimit)))
        }
        RosBase::R21(k) => {
            let mut h = k.clone();
            let mut hsup = k.supply.clone();
            let n = h.cbs.len();
            match &c.harden {
                RosHarden::CostUp { who, k: dk } => cost_up(&mut h.cbs[who % n].cost, *dk),
                RosHarden::JitterUp { who, .. } | RosHarden::PeriodDown { who, .. } => {
                    if !harden_arr(&mut h.cbs[who % n].arr, &c.harden) {
                        out.label("hardening-not-applicable");
                        return Ok(out);
                    }
                }
                RosHarden::BlockingUp { .. } => {
                    out.label("hardening-not-applicable");
                    return Ok(out);
                }
                RosHarden::AddCallback { arr, cost } => h.cbs.push(c07::Cb21 { arr: arr.clone(), cost: CostSpec::Scalar { c: *cost }, kind: c07::Kind21::Timer, r: 1 + cost }),
                RosHarden::LimitUp { k: dk } => hlimit += dk,
                sup_h => match harden_supply(&k.supply, sup_h) {
                    Some(s2) => hsup = s2,
                    None => {
                        out.label("hardening-not-applicable");
                        return Ok(out);
                    }
                },
            }
            (guard(|| c07::run21(k, &k.supply, c.limit)), guard(|| c07::run21(&h, &hsup, hlimit)))
        }
    };
    let (base, hard) = match (base_res, hard_res) {
        (Ok(b), Ok(h)) => (Res::from(b), Res::from(h)),
        _ => {
            out.label("analysis-panicked(skipped)");
            return Ok(out);
        }
    };
    let name = match &c.base {
        RosBase::E19(k) => match k.call {
            Call19::EventSource => "rta_event_source",
            Call19::Timer { .. } => "rta_timer",
            Call19::Pp => "rta_polling_point_callback",
            Call19::Chain { .. } => "rta_processing_chain",
        },
        RosBase::R21(k) => {
            if k.use_bw {
                "bw::rta_subchain"
            } else {
                "rr::rta_subchain"
            }
        }
    };
    judge(&format!("{} under {:?}", name, c.harden), &base, &hard, matches!(c.harden, RosHarden::LimitUp { .. }))?;
    if let (RosHarden::LimitUp { k }, Res::Ok(_)) = (&c.harden, &base) {
        for extra in [1u64, 2, 3, 5, 8, 13, 21, 34, 55, 89, 144, k + 233, 3 * k + 1000] {
            let again = match &c.base {
                RosBase::E19(b) => guard(|| c07::run19(b, &b.supply, c.limit + extra)),
                RosBase::R21(b) => guard(|| c07::run21(b, &b.supply, c.limit + extra)),
            };
            let again = match again {
                Ok(r) => Res::from(r),
                Err(_) => break,
            };
            judge(&format!("{} with limit {} + {}", name, c.limit, extra), &base, &again, true)?;
            out.inner += 1;
        }
    }
    out.inner += 2;
    out.nontrivial = base.ok().is_some() && hard.ok().is_some() && hard != base;
    out.label_if(base.is_err(), "base-err");
    out.label(name);
    out.label(match c.harden {
        RosHarden::CostUp { .. } => "cost-up",
        RosHarden::JitterUp { .. } => "jitter-up",
        RosHarden::BlockingUp { .. } => "blocking-up",
        RosHarden::PeriodDown { .. } => "period-down",
        RosHarden::AddCallback { .. } => "add-callback",
        RosHarden::BudgetDown => "budget-down",
        RosHarden::DeadlineUp => "deadline-up",
        RosHarden::Reserve { .. } => "dedicated-to-reservation",
        RosHarden::LimitUp { .. } => "limit-up",
    });
    Ok(out)
}

pub fn def() -> PropertyDef {
    PropertyDef {
        id: "C17",
        rule: "generated: a base analysis call (any of the nine uniprocessor analyses on task sets as C06, explicit or prescribed blocking, limit 3000 or small; any of the six ROS 2 analyses as C07 with scalar costs) plus ONE hardening: WCET +k (into a non-final segment), release jitter +k (clone_with_jitter), blocking +k, another task's non-preemptive segments lengthened, period -k, an added task / callback, weaker supply (budget -1, constrained deadline +1, dedicated -> Periodic(Q,P)), limit +k. Oracle (metamorphic): hard >= base; base Err => hard Err; limit +k reproduces every Ok exactly. Non-trivial: both Ok and the result changed. Sub-check uniprocessor-scaled: the same relation on uniprocessor systems whose every time value (periods, jitters, delta-min entries, WCETs, segments, deadlines, blocking) and limit are multiplied by 20011 / 100003; in three quarters of the cases the common limit is placed at a generated fraction of the bound that the harder system obtains under a generous limit (where Ok and divergence lie next to each other), otherwise as generated; after scaling nearly all limits lie above 10^5 - the range in which the debug builds of the crate no longer cross-check the fixed-point search, so that a wrong value there surfaces as a value. Inputs on which an analysis panics are skipped (C20). Distinct by case JSON.".into(),
        assumptions: vec![
            "lengthening the analysed task's own last segment is not a hardening (it shortens the preemptable part), so a WCET increase goes into a non-final segment".into(),
            "ROS 2 analyses with scalar costs (as the property states)".into(),
        ],
        subchecks: vec![
            subcheck("uniprocessor", (2500, 80_000), uni_strategy, check_uni),
            subcheck("ros2", (1500, 50_000), ros_strategy, check_ros),
            subcheck("uniprocessor-scaled", (1500, 40_000), uni_scaled_strategy, check_uni),
        ],
        extra: None,
    }
}

//! C14 — job-cost models bound every run of consecutive jobs.

use proptest::prelude::*;
use response_time_analysis::wcet::{self, JobCostModel};
use serde::{Deserialize, Serialize};

use crate::cost::*;
use crate::engine::*;
use crate::supply_ref::{s, su};

pub const KNOWN_RAISE: &str = "C14/eager-extrapolate-raises-beyond-prefix";

// --- model laws ---------------------------------------------------------------

#[derive(Clone, Debug, Serialize, Deserialize)]
pub struct LawCase {
    pub spec: CostSpec,
    pub upto: usize,
}

fn law_strategy(_tier: Tier) -> BoxedStrategy<LawCase> {
    (
        prop_oneof![
            6 => cost_strategy(30, false),
            2 => proptest::collection::vec(1u64..60, 1..8).prop_map(|vals| CostSpec::FromIter { vals }),
        ],
        1usize..60,
    )
        .prop_map(|(spec, upto)| LawCase { spec, upto })
        .boxed()
}

fn check_laws(c: &LawCase) -> CheckResult {
    let mut out = Outcome::default();
    let cm = guard(|| c.spec.build()).map_err(|e| format!("constructing the cost model panicked: {}", e))?;
    let n = c.upto;
    let costs: Vec<u64> = guard(|| (0..=n).map(|k| su(cm.cost_of_jobs(k))).collect::<Vec<_>>())
        .map_err(|e| format!("cost_of_jobs panicked: {}", e))?;
    if costs[0] != 0 {
        return Err(format!("cost_of_jobs(0) = {}", costs[0]));
    }
    for k in 1..=n {
        if costs[k] < costs[k - 1] {
            return Err(format!("cost_of_jobs decreases: ({})={} -> ({})={}", k - 1, costs[k - 1], k, costs[k]));
        }
    }
    let items: Vec<u64> = guard(|| cm.job_cost_iter().take(n).map(su).collect::<Vec<_>>())
        .map_err(|e| format!("job_cost_iter panicked: {}", e))?;
    if items.len() != n {
        return Err(format!("job_cost_iter ended after {} items", items.len()));
    }
    let mut sum = 0;
    for k in 1..=n {
        sum += items[k - 1];
        if sum != costs[k] {
            return Err(format!("cost_of_jobs({}) = {} but the first {} items of job_cost_iter sum to {}", k, costs[k], k, sum));
        }
        let lw = guard(|| su(cm.least_wcet(k))).map_err(|e| format!("least_wcet({}) panicked: {}", k, e))?;
        let m = *items[..k].iter().min().unwrap();
        if lw > m {
            return Err(format!("least_wcet({}) = {} exceeds the smallest of the first {} job costs ({})", k, lw, k, m));
        }
    }
    let _ = guard(|| cm.least_wcet(0)).map_err(|e| format!("least_wcet(0) panicked: {}", e))?;
    // closed-form reference for Scalar / Multiframe / plain Curve
    for k in 0..=n {
        if let Some(r) = c.spec.ref_cost(k) {
            if r != costs[k] {
                return Err(format!("cost_of_jobs({}) = {} but the model's definition gives {}", k, costs[k], r));
            }
        }
    }
    out.inner = n as u64;
    let plen = match &c.spec {
        CostSpec::Multiframe { costs } => costs.len(),
        CostSpec::Curve { cum, .. } => cum.len(),
        CostSpec::FromTrace { max_n, costs, .. } => (*max_n).min(costs.len()),
        CostSpec::FromIter { vals } => vals.len(),
        _ => 1,
    };
    out.nontrivial = !c.spec.is_scalar() && n > plen;
    out.label_if(matches!(c.spec, CostSpec::Multiframe { .. }), "multiframe");
    out.label_if(matches!(c.spec, CostSpec::Curve { .. }), "curve");
    out.label_if(matches!(c.spec, CostSpec::FromTrace { .. }), "from-trace");
    out.label_if(matches!(c.spec, CostSpec::FromIter { .. }), "from-iterator");
    Ok(out)
}

// --- traces -------------------------------------------------------------------

#[derive(Clone, Debug, Serialize, Deserialize)]
pub enum Op {
    Cost { who: usize, n: usize },
    Least { who: usize, n: usize },
    Iter { who: usize, k: usize },
    Clone { who: usize },
}

#[derive(Clone, Debug, Serialize, Deserialize)]
pub struct TraceCase {
    pub trace: Vec<u64>,
    pub max_n: usize,
    /// eager extrapolation targets
    pub extrapolate_to: Vec<usize>,
    pub history: Vec<Op>,
}

fn op_strategy() -> BoxedStrategy<Op> {
    prop_oneof![
        5 => (0usize..4, prop_oneof![6 => 0usize..12, 4 => 0usize..80, 1 => 0usize..1500]).prop_map(|(who, n)| Op::Cost { who, n }),
        2 => (0usize..4, 0usize..40).prop_map(|(who, n)| Op::Least { who, n }),
        2 => (0usize..4, 0usize..40).prop_map(|(who, k)| Op::Iter { who, k }),
        1 => (0usize..4).prop_map(|who| Op::Clone { who }),
    ]
    .boxed()
}

fn trace_strategy(_tier: Tier) -> BoxedStrategy<TraceCase> {
    (
        // traces with expensive runs anywhere, in particular at the very end
        (proptest::collection::vec(prop_oneof![1 => Just(0u64), 5 => 1u64..=4, 4 => 1u64..=40], 1..16), proptest::collection::vec(5u64..=40, 0..4))
            .prop_map(|(mut a, b)| {
                a.extend(b);
                a
            }),
        1usize..=8,
        prop_oneof![3 => Just(vec![]), 1 => proptest::collection::vec(0usize..60, 1..3)],
        proptest::collection::vec(op_strategy(), 0..14),
    )
        .prop_map(|(trace, max_n, extrapolate_to, history)| TraceCase { trace, max_n, extrapolate_to, history })
        .boxed()
}

pub fn decode_trace(d: &mut crate::dec::Dec) -> TraceCase {
    let trace = d.vec(1, 18, |d| if d.byte() % 8 == 0 { 0 } else if d.flag() { d.range(1, 4) } else { d.range(1, 40) });
    let max_n = d.range(1, 8) as usize;
    let extrapolate_to = if d.byte() % 4 == 0 { d.vec(1, 2, |d| d.pick(60)) } else { vec![] };
    let history = d.vec(0, 13, |d| match d.pick(5) {
        0 | 1 => Op::Cost { who: d.pick(4), n: if d.byte() % 8 == 0 { d.pick(1500) } else { d.pick(80) } },
        2 => Op::Least { who: d.pick(4), n: d.pick(40) },
        3 => Op::Iter { who: d.pick(4), k: d.pick(40) },
        _ => Op::Clone { who: d.pick(4) },
    });
    TraceCase { trace, max_n, extrapolate_to, history }
}

fn check_trace(c: &TraceCase) -> CheckResult {
    let mut out = Outcome::default();
    let t = &c.trace;
    let mk = || wcet::Curve::from_trace(t.iter().map(|x| s(*x)), c.max_n);
    let cf = guard(mk).map_err(|e| format!("from_trace panicked: {}", e))?;
    let upto = t.len() + 4;
    let base: Vec<u64> = guard(|| (0..=upto.max(1500)).map(|n| su(cf.cost_of_jobs(n))).collect::<Vec<_>>())
        .map_err(|e| format!("cost_of_jobs panicked: {}", e))?;
    let mut late_run = false;
    for n in 0..=t.len() {
        let truth = trace_max_run(t, n);
        if base[n] < truth {
            return Err(format!(
                "from_trace(.., max_n={}).cost_of_jobs({}) = {} but {} consecutive jobs of the trace cost {}",
                c.max_n, n, base[n], n, truth
            ));
        }
        // is the maximising run of n jobs one that starts in the last max_n - 1 positions only?
        if n >= 1 && n <= c.max_n && t.len() > c.max_n {
            let last_start = t.len() - c.max_n; // runs starting later begin inside the final window
            let early_max = (0..=last_start.min(t.len() - n))
                .map(|i| t[i..i + n].iter().sum::<u64>())
                .max()
                .unwrap_or(0);
            if early_max < truth {
                late_run = true;
            }
        }
    }
    out.inner += t.len() as u64;
    // eager extrapolation: never raises, keeps dominating the trace
    let mut eager = cf.clone();
    let mut prefix_len = c.max_n.min(t.len());
    let mut known_raise: Option<String> = None;
    for &target in &c.extrapolate_to {
        guard(|| eager.extrapolate(target)).map_err(|e| format!("extrapolate({}) panicked: {}", target, e))?;
        let ext: Vec<u64> = guard(|| (0..base.len()).map(|n| su(eager.cost_of_jobs(n))).collect::<Vec<_>>())
            .map_err(|e| format!("cost_of_jobs after extrapolate panicked: {}", e))?;
        // length of the cumulative prefix after the eager extension (mirrors the documented behaviour:
        // nothing happens below three samples, otherwise the prefix is extended to target - 1 entries)
        if prefix_len >= 3 {
            prefix_len = prefix_len.max(target.saturating_sub(1));
        }
        for n in 0..base.len() {
            if ext[n] > base[n] {
                let msg = format!("extrapolate({}) raised cost_of_jobs({}) from {} to {}", target, n, base[n], ext[n]);
                if n > prefix_len {
                    // known finding: beyond the extended prefix the whole-prefix repetition of the
                    // longer prefix can be coarser than that of the original one
                    known_raise = Some(msg);
                    continue;
                }
                return Err(msg);
            }
            if n <= t.len() && ext[n] < trace_max_run(t, n) {
                return Err(format!(
                    "after extrapolate({}) cost_of_jobs({}) = {} no longer dominates the trace ({})",
                    target,
                    n,
                    ext[n],
                    trace_max_run(t, n)
                ));
            }
        }
        out.inner += 1;
    }
    // caching variant: every answer equals that of a fresh instance, whatever the history
    let mut pool: Vec<wcet::ExtrapolatingCurve> = vec![wcet::ExtrapolatingCurve::new(cf.clone())];
    let mut small_after_large = false;
    let mut largest = 0usize;
    for op in &c.history {
        let fresh = wcet::ExtrapolatingCurve::new(mk());
        match op {
            Op::Cost { who, n } => {
                let x = &pool[who % pool.len()];
                let (a, b) = guard(|| (x.cost_of_jobs(*n), fresh.cost_of_jobs(*n))).map_err(|e| format!("cost_of_jobs({}) panicked: {}", n, e))?;
                if a != b {
                    return Err(format!("cached cost_of_jobs({}) = {:?} but a fresh instance says {:?} (history {:?})", n, a, b, c.history));
                }
                if su(a) > base[(*n).min(base.len() - 1)] && *n < base.len() {
                    return Err(format!("extrapolating cost_of_jobs({}) = {:?} exceeds the un-extrapolated bound {}", n, a, base[*n]));
                }
                if *n <= t.len() && su(a) < trace_max_run(t, *n) {
                    return Err(format!("extrapolating cost_of_jobs({}) = {:?} is below the trace ({})", n, a, trace_max_run(t, *n)));
                }
                if *n + 3 < largest {
                    small_after_large = true;
                }
                largest = largest.max(*n);
            }
            Op::Least { who, n } => {
                let x = &pool[who % pool.len()];
                let (a, b) = guard(|| (x.least_wcet(*n), fresh.least_wcet(*n))).map_err(|e| format!("least_wcet({}) panicked: {}", n, e))?;
                if a != b {
                    return Err(format!("cached least_wcet({}) = {:?} but a fresh instance says {:?}", n, a, b));
                }
            }
            Op::Iter { who, k } => {
                let x = &pool[who % pool.len()];
                let (a, b) = guard(|| {
                    (
                        x.job_cost_iter().take(*k).collect::<Vec<_>>(),
                        fresh.job_cost_iter().take(*k).collect::<Vec<_>>(),
                    )
                })
                .map_err(|e| format!("job_cost_iter panicked: {}", e))?;
                if a != b {
                    return Err(format!("cached job_cost_iter differs from a fresh one within the first {} items", k));
                }
                largest = largest.max(*k);
            }
            Op::Clone { who } => {
                if pool.len() < 4 {
                    let x = pool[who % pool.len()].clone();
                    pool.push(x);
                }
            }
        }
        out.inner += 1;
    }
    if let Some(msg) = known_raise {
        return known_or_violation(KNOWN_RAISE, msg, out);
    }
    out.nontrivial = late_run || c.history.iter().any(|o| matches!(o, Op::Cost { n, .. } if *n > c.max_n));
    out.label_if(late_run, "maximising-run-at-the-end");
    out.label_if(small_after_large, "small-query-after-large");
    out.label_if(pool.len() >= 2, "shared-clones");
    out.label_if(c.extrapolate_to.iter().any(|x| *x == 0), "extrapolate(0)");
    Ok(out)
}

pub fn def() -> PropertyDef {
    PropertyDef {
        id: "C14",
        rule: "generated: (a) cost models (Scalar, Multiframe vectors, sub-additive cumulative prefixes plain/extrapolating, from_trace plain/extrapolating) with n far beyond the prefix: cost_of_jobs(0)=0, monotone, equal to the prefix sums of job_cost_iter, least_wcet(n) <= each of the first n items, equal to the closed definition for Scalar/Multiframe/plain Curve; (b) cost traces (cheap jobs with expensive runs, expensive runs appended at the very end), max_n, eager extrapolation targets and a generated query history (cost_of_jobs / least_wcet / job_cost_iter / clone over a pool of clones sharing one cache): from_trace(..).cost_of_jobs(n) >= the maximum cost of any n consecutive jobs of the trace (sliding-window sum, independent of the crate) for every n; extrapolation never raises a bound and keeps dominating the trace; every cached answer equals a fresh instance's. Non-trivial: (a) non-scalar model queried beyond its prefix; (b) the maximising run of some n lies in the last max_n-1 positions, or a query beyond max_n. Distinct by case JSON.".into(),
        assumptions: vec![
            "job costs >= 1; hand-written cumulative prefixes are strictly increasing and sub-additive (the constructor documents garbage in, garbage out)".into(),
        ],
        subchecks: vec![
            subcheck("laws", (15_000, 300_000), law_strategy, check_laws),
            subcheck("trace", (20_000, 400_000), trace_strategy, check_trace).with_decoder(decode_trace, check_trace),
        ],
        extra: None,
    }
}

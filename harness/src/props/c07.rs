//! C07 — ROS 2 bounds equal exhaustive evaluation of their defining equations.

use std::rc::Rc;

use proptest::prelude::*;
use response_time_analysis::arrival::ArrivalBound;
use response_time_analysis::demand::{self, RequestBound, RBF};
use response_time_analysis::fixed_point::SearchFailure;
use response_time_analysis::ros2::{self, bw, rr};
use response_time_analysis::wcet::JobCostModel;
use serde::{Deserialize, Serialize};

use crate::arr::*;
use crate::cost::*;
use crate::engine::*;
use crate::ros::*;
use crate::supply_ref::*;

const TMAX: u64 = 1400;

pub fn gen(tier: Tier) -> RosGen {
    RosGen {
        arr: ArrGen { tmax: tier.pick(40, 80), never: false, plateau_end: true, plain_curves: true, derived: false, acp: false, loose: false, poisson: false, depth: 1 },
        cmax: 7,
        nmax: 4,
        pmax: 8,
        multiframe: true,
    }
}

/// A multiframe vector is a valid bound on *every* run of n consecutive jobs only if the sum of
/// its first n (cyclic) entries is the maximum over all rotations, i.e. if it is non-increasing;
/// request bounds built from other vectors are not sub-additive and not upper bounds of the demand.
pub fn valid_cost(c: CostSpec) -> CostSpec {
    match c {
        CostSpec::Multiframe { mut costs } => {
            costs.sort_unstable_by(|a, b| b.cmp(a));
            CostSpec::Multiframe { costs }
        }
        other => other,
    }
}

#[derive(Clone, Debug, Serialize, Deserialize)]
pub enum LimitSel {
    Huge,
    Absolute(u64),
    /// the reference result itself / one below (probing limits equal to a fixed point)
    AtResult,
    BelowResult,
}

pub fn limit_sel() -> BoxedStrategy<LimitSel> {
    prop_oneof![4 => Just(LimitSel::Huge), 3 => (1u64..250).prop_map(LimitSel::Absolute), 2 => Just(LimitSel::AtResult), 1 => Just(LimitSel::BelowResult)].boxed()
}

/// least r >= 0 with sbf(r) >= f(max(r,1)), r <= limit
fn lfp(sbf: &[u64], limit: u64, f: impl Fn(u64) -> u64) -> Option<u64> {
    if f(1) == 0 {
        return Some(0);
    }
    (1..=limit).find(|x| sbf[*x as usize] >= f(*x))
}

/// least r >= 0 with sbf(off + r) >= f(max(r,1)), r <= limit
fn lfp_off(sbf: &[u64], off: u64, limit: u64, f: impl Fn(u64) -> u64) -> Option<u64> {
    (0..=limit).find(|r| sbf[(off + r) as usize] >= f((*r).max(1)))
}

fn st(sbf: &[u64], demand: u64) -> u64 {
    ref_service_time(sbf, demand).expect("reference SBF table long enough")
}

#[derive(Clone, Debug, PartialEq, Eq)]
enum RefRes {
    Ok(u64),
    /// divergence; the set of offsets at which the reference evaluation fails
    Div(Vec<u64>),
}

// --- ECRTS'19 -----------------------------------------------------------------------

#[derive(Clone, Debug, Serialize, Deserialize)]
pub enum Call19 {
    EventSource,
    Timer { blocking: u64 },
    Pp,
    /// own = last callback of a chain: prefix cost model and others
    Chain { prefix_cost: u64 },
}

#[derive(Clone, Debug, Serialize, Deserialize)]
pub struct Case19 {
    pub own: (ArrSpec, CostSpec),
    pub others: Vec<(ArrSpec, CostSpec)>,
    pub supply: SupplySpec,
    pub call: Call19,
    pub limit: LimitSel,
}

pub fn strategy19(tier: Tier) -> BoxedStrategy<Case19> {
    let g = gen(tier);
    (
        workload_strategy(g, 300, 1050),
        prop_oneof![
            2 => Just(Call19::EventSource),
            3 => (0u64..8).prop_map(|blocking| Call19::Timer { blocking }),
            3 => Just(Call19::Pp),
            3 => (0u64..8).prop_map(|prefix_cost| Call19::Chain { prefix_cost }),
        ],
        limit_sel(),
    )
        .prop_map(|(wl, call, limit)| {
            let mut it = wl.cbs.into_iter().map(|c| (c.arr, valid_cost(c.cost)));
            let own = it.next().unwrap();
            Case19 { own, others: it.collect(), supply: wl.supply, call, limit }
        })
        .boxed()
}

pub struct Tab19 {
    own: Vec<u64>,
    own_least: Vec<u64>,
    others: Vec<u64>,
    prefix: Vec<u64>,
    sbf: Vec<u64>,
}

pub const KNOWN_NONSTEP: &str = "C07/non-scalar-own-cost-maximum-at-non-step-offset";

fn reference19(t: &Tab19, call: &Call19, limit: u64) -> RefRes {
    reference19_both(t, call, limit).0
}

/// (evaluation over every offset, evaluation over the step offsets of the own demand only)
pub const KNOWN_NONSTEP_OTHER: &str = "C07/step-offset-pruning-differs-from-every-offset-evaluation";
pub const KNOWN_NONSTEP_IDLE: &str = "C07/maximum-at-non-step-offset-after-the-level-busy-window-ended";

thread_local! {
    /// set by reference19_both: every non-step offset whose bound exceeds the step-only maximum lies at
    /// or after the completion bound of the preceding step offset (the busy window of the analysed
    /// callback's level has ended there; the literal equation restarts from stale totals)
    static NONSTEP_ALL_AFTER_COMPLETION: std::cell::Cell<bool> = const { std::cell::Cell::new(false) };
}

fn reference19_both(t: &Tab19, call: &Call19, limit: u64) -> (RefRes, RefRes) {
    let zero = |_: u64| 0u64;
    let _ = zero;
    let (rhs_bw, b): (Box<dyn Fn(u64) -> u64>, u64) = match call {
        Call19::EventSource => (Box::new(|x| t.own[x as usize]), 0),
        Call19::Timer { blocking } => (Box::new(move |x| t.own[x as usize] + blocking + t.others[x as usize]), *blocking),
        Call19::Pp => (Box::new(|x| t.own[x as usize] + t.others[x as usize]), 0),
        Call19::Chain { .. } => (Box::new(|x| t.own[x as usize] + t.prefix[x as usize] + t.others[x as usize]), 0),
    };
    let max_bw = match lfp(&t.sbf, limit, &rhs_bw) {
        Some(x) => x,
        None => return (RefRes::Div(vec![0]), RefRes::Div(vec![0])),
    };
    let mut best = 0;
    let mut failing = vec![];
    let mut best_steps = 0;
    let mut failing_steps = vec![];
    // (offset, bound, completion bound of the preceding step offset) for non-step offsets
    let mut nonstep: Vec<(u64, Option<u64>, Option<u64>)> = vec![];
    let mut last_step_completion: Option<u64> = None;
    for a in 0..=max_bw {
        let rhs = |r: u64| -> u64 {
            match call {
                Call19::EventSource => t.own[(a + 1) as usize],
                _ => {
                    let own_wcet = t.own_least[(a + r) as usize];
                    let ii = if r > own_wcet { a + r - own_wcet + 1 } else { a + 1 };
                    let base = t.own[(a + 1) as usize] + t.others[ii as usize] + b;
                    match call {
                        Call19::Chain { .. } => base + t.prefix[ii as usize],
                        _ => base,
                    }
                }
            }
        };
        match lfp_off(&t.sbf, a, limit, rhs) {
            Some(r) => {
                // the demand whose steps define the search space: own (+ prefix on the same curve)
                if t.own[(a + 1) as usize] + t.prefix[(a + 1) as usize] > t.own[a as usize] + t.prefix[a as usize] {
                    best_steps = best_steps.max(r);
                    last_step_completion = Some(a + r);
                } else {
                    nonstep.push((a, Some(r), last_step_completion));
                }
                if std::env::var("C07_DEBUG").is_ok() {
                    eprintln!("offset {} own(A+1)={} own_step={} r={} least_wcet(a+r)={}", a, t.own[(a + 1) as usize], t.own[(a + 1) as usize] > t.own[a as usize], r, t.own_least[(a + r) as usize]);
                }
                best = best.max(r)
            }
            None => {
                failing.push(a);
                if t.own[(a + 1) as usize] + t.prefix[(a + 1) as usize] > t.own[a as usize] + t.prefix[a as usize] {
                    failing_steps.push(a);
                    last_step_completion = None;
                } else {
                    nonstep.push((a, None, last_step_completion));
                }
            }
        }
    }
    // do all non-step offsets that beat the step-only result lie at / after the preceding step's completion bound?
    let worse: Vec<&(u64, Option<u64>, Option<u64>)> = nonstep.iter().filter(|(_, r, _)| r.map(|r| r > best_steps).unwrap_or(true)).collect();
    NONSTEP_ALL_AFTER_COMPLETION.with(|c| c.set(!worse.is_empty() && worse.iter().all(|(a, _, done)| done.map(|y| y <= *a).unwrap_or(false))));
    let all = if failing.is_empty() { RefRes::Ok(best) } else { RefRes::Div(failing) };
    let steps = if failing_steps.is_empty() { RefRes::Ok(best_steps) } else { RefRes::Div(failing_steps) };
    (all, steps)
}

type Rb = Rc<dyn RequestBound>;
fn mk_rbf(a: &ArrSpec, c: &CostSpec) -> Rb {
    Rc::new(RBF::new(a.build(), c.build()))
}

fn compare(name: &str, got: Result<response_time_analysis::time::Duration, SearchFailure>, exp: &RefRes, limit: u64) -> Result<(), String> {
    match (got, exp) {
        (Ok(x), RefRes::Ok(y)) if du(x) == *y => Ok(()),
        // Err iff some required fixed point does not exist within the limit; which offset / limit the
        // error carries is not part of this property (the search's own payload is pinned by C08)
        (Err(_), RefRes::Div(_)) => {
            let _ = limit;
            Ok(())
        }
        (g, e) => Err(format!("{} returned {:?} but exhaustive evaluation of its equations (limit {}) gives {:?}", name, g, limit, e)),
    }
}

fn check19(c: &Case19) -> CheckResult {
    let mut out = Outcome::default();
    let upto = 2 * TMAX + 4;
    let built = guard(|| {
        let own = mk_rbf(&c.own.0, &c.own.1);
        let others: Vec<Rb> = c.others.iter().map(|(a, k)| mk_rbf(a, k)).collect();
        let prefix: Rb = match &c.call {
            Call19::Chain { prefix_cost } if *prefix_cost > 0 => mk_rbf(&c.own.0, &CostSpec::Scalar { c: *prefix_cost }),
            _ => Rc::new(demand::Aggregate::<Rb>::new(vec![])),
        };
        let tab = Tab19 {
            own: (0..=upto).map(|x| su(own.service_needed(d(x)))).collect(),
            own_least: (0..=upto).map(|x| su(own.least_wcet_in_interval(d(x)))).collect(),
            others: (0..=upto).map(|x| others.iter().map(|r| su(r.service_needed(d(x)))).sum()).collect(),
            prefix: (0..=upto).map(|x| su(prefix.service_needed(d(x)))).collect(),
            sbf: c.supply.ref_table(upto + 2),
        };
        (own, others, prefix, tab)
    });
    let (own, others, prefix, tab) = match built {
        Ok(x) => x,
        Err(_) => {
            out.label("construction-failed(skipped)");
            return Ok(out);
        }
    };
    let huge = reference19(&tab, &c.call, TMAX);
    let limit = match (&c.limit, &huge) {
        (LimitSel::Huge, _) => TMAX,
        (LimitSel::Absolute(x), _) => *x,
        (LimitSel::AtResult, RefRes::Ok(r)) => (*r).max(1),
        (LimitSel::BelowResult, RefRes::Ok(r)) => r.saturating_sub(1).max(1),
        _ => 300,
    };
    let (exp, exp_steps) = reference19_both(&tab, &c.call, limit);
    let _ = huge;
    let sup = c.supply.build();
    let got = guard(|| {
        let agg = demand::Aggregate::new(others.clone());
        match &c.call {
            Call19::EventSource => ros2::rta_event_source(&sup, &own, d(limit)),
            Call19::Timer { blocking } => ros2::rta_timer(&sup, &own, &agg, s(*blocking), d(limit)),
            Call19::Pp => ros2::rta_polling_point_callback(&sup, &own, &agg, d(limit)),
            Call19::Chain { .. } => {
                // full chain = last callback + prefix (consistent by construction)
                let full: Vec<Rb> = vec![own.clone(), prefix.clone()];
                ros2::rta_processing_chain(&sup, &own, &prefix, &demand::Aggregate::new(full), &agg, d(limit))
            }
        }
    });
    let got = match got {
        Ok(g) => g,
        Err(e) if e.contains("verif-step-budget") => {
            out.label("step-budget-exhausted(skipped)");
            return Ok(out);
        }
        // a panic is neither the value nor the Err the property demands (the crate's debug-only
        // cross-checks fire exactly when the release build would return a wrong result)
        Err(e) => return Err(format!("ecrts19 analysis panicked: {} (limit {})", e, limit)),
    };
    let name = match c.call {
        Call19::EventSource => "rta_event_source",
        Call19::Timer { .. } => "rta_timer",
        Call19::Pp => "rta_polling_point_callback",
        Call19::Chain { .. } => "rta_processing_chain",
    };
    if let Err(msg) = compare(name, got, &exp, limit) {
        // known finding: with a non-scalar own cost model least_wcet_in_interval(A + R) is not constant
        // between two steps of the own demand, the per-offset bound is then not monotone there, and the
        // literal maximum over every offset can exceed the maximum over the step offsets the crate examines
        if !c.own.1.is_scalar() && exp != exp_steps && compare(name, got, &exp_steps, limit).is_ok() {
            return known_or_violation(KNOWN_NONSTEP, msg, out);
        }
        // known finding (second shape): the literal maximum lies at a non-step offset at or after the
        // completion bound of the preceding step offset, i.e. where the busy window of the analysed
        // callback's level has already ended and the crate (rightly) starts over at offset 0
        if exp != exp_steps && compare(name, got, &exp_steps, limit).is_ok() && NONSTEP_ALL_AFTER_COMPLETION.with(|c| c.get()) {
            return known_or_violation(KNOWN_NONSTEP_IDLE, msg, out);
        }
        // any other shape of the same root cause (the search space is pruned to the step offsets of the
        // own demand, the statement quantifies over every offset): the crate's result still has to equal
        // the exhaustive evaluation restricted to the step offsets, so nothing a change to the crate
        // could do is hidden by this entry
        if exp != exp_steps && compare(name, got, &exp_steps, limit).is_ok() {
            return known_or_violation(KNOWN_NONSTEP_OTHER, msg, out);
        }
        return Err(msg);
    }
    out.inner = 1;
    out.nontrivial = !c.others.is_empty() || !c.supply.is_dedicated();
    out.label(name);
    out.label_if(matches!(exp, RefRes::Div(_)), "err");
    out.label_if(!c.own.1.is_scalar(), "own-multiframe");
    out.label_if(!c.supply.is_dedicated(), "reservation");
    Ok(out)
}

// --- RTSS'21 rr / bw ----------------------------------------------------------------

#[derive(Clone, Copy, Debug, Serialize, Deserialize, PartialEq, Eq)]
pub enum Kind21 {
    Timer,
    EventSource,
    Unknown,
    Polled(i32),
}

#[derive(Clone, Debug, Serialize, Deserialize)]
pub struct Cb21 {
    pub arr: ArrSpec,
    pub cost: CostSpec,
    pub kind: Kind21,
    /// assumed response-time bound
    pub r: u64,
}

#[derive(Clone, Debug, Serialize, Deserialize)]
pub struct Case21 {
    pub cbs: Vec<Cb21>,
    pub supply: SupplySpec,
    /// subchain as indices (distinct), last = end of chain
    pub chain: Vec<usize>,
    pub use_bw: bool,
    pub limit: LimitSel,
}

pub fn strategy21(tier: Tier) -> BoxedStrategy<Case21> {
    let g = gen(tier);
    (
        workload_strategy(g, 250, 1000),
        proptest::collection::vec((prop_oneof![2 => Just(0u8), 1 => Just(1u8), 2 => Just(2u8), 3 => Just(3u8)], 0i32..5, 1u64..90), 4),
        proptest::collection::vec(any::<u8>(), 4),
        1usize..=4,
        any::<bool>(),
        limit_sel(),
    )
        .prop_map(|(wl, meta, perm, clen, use_bw, limit)| {
            let n = wl.cbs.len();
            let cbs: Vec<Cb21> = wl
                .cbs
                .into_iter()
                .enumerate()
                .map(|(i, c)| {
                    let (k, p, r) = meta[i];
                    let kind = match k {
                        0 => Kind21::Timer,
                        1 => Kind21::EventSource,
                        2 => Kind21::Unknown,
                        _ => Kind21::Polled(p),
                    };
                    Cb21 { arr: c.arr, cost: valid_cost(c.cost), kind, r }
                })
                .collect();
            // a permutation prefix as the subchain
            let mut idx: Vec<usize> = (0..n).collect();
            for i in 0..n {
                let j = i + (perm[i] as usize) % (n - i);
                idx.swap(i, j);
            }
            idx.truncate(clen.min(n));
            Case21 { cbs, supply: wl.supply, chain: idx, use_bw, limit }
        })
        .boxed()
}

pub fn ct(k: Kind21) -> rr::CallbackType {
    match k {
        Kind21::Timer => rr::CallbackType::Timer,
        Kind21::EventSource => rr::CallbackType::EventSource,
        Kind21::Unknown => rr::CallbackType::PolledUnknownPrio,
        Kind21::Polled(p) => rr::CallbackType::Polled(p),
    }
}

struct Tab21 {
    eta: Vec<Vec<u64>>,
    cost: Vec<Vec<u64>>,
    sbf: Vec<u64>,
}

fn ncap(kind: Kind21, eoc: Kind21, arrived: u64, base: u64) -> u64 {
    match kind {
        Kind21::Timer | Kind21::EventSource => arrived,
        Kind21::Unknown => arrived.min(base + 1),
        Kind21::Polled(p) => match eoc {
            Kind21::Polled(q) => arrived.min(base + (p < q) as u64),
            _ => arrived.min(base + 1),
        },
    }
}

fn reference21(c: &Case21, t: &Tab21, limit: u64) -> RefRes {
    let cbs = &c.cbs;
    let e = *c.chain.last().unwrap();
    let eoc = &cbs[e];
    let eta = |i: usize, x: u64| t.eta[i][x as usize];
    let cost = |i: usize, n: u64| t.cost[i][n as usize];
    let pp: u64 = c.chain.iter().map(|i| eta(*i, cbs[*i].r)).sum();
    let single = c.chain.len() == 1;
    if c.use_bw {
        let intf = |delta: u64, act: u64| -> u64 {
            (0..cbs.len())
                .filter(|i| *i != e)
                .map(|i| cost(i, ncap(cbs[i].kind, eoc.kind, eta(i, delta), eta(i, act) + pp)))
                .sum()
        };
        let maxoff = match lfp(&t.sbf, limit, |x| 1 + intf(x, x) + cost(e, eta(e, x))) {
            Some(x) => x,
            None => return RefRes::Div(vec![0]),
        };
        let mut best = 0;
        for a in 0..maxoff {
            let nself = eta(e, a + 1).saturating_sub(1);
            let si = cost(e, nself);
            let sstar = match lfp(&t.sbf, limit, |x| 1 + intf(x, a) + si) {
                Some(x) => x,
                None => return RefRes::Div(vec![0]),
            };
            let omega = cost(e, nself + 1) - cost(e, nself);
            let f = st(&t.sbf, t.sbf[sstar as usize].saturating_sub(1) + omega);
            let v = if single { f.saturating_sub(a) } else { f };
            best = best.max(v);
        }
        RefRes::Ok(best)
    } else {
        let sstar = match lfp(&t.sbf, limit, |x| {
            let di: u64 = (0..cbs.len())
                .filter(|i| *i != e)
                .map(|i| cost(i, ncap(cbs[i].kind, eoc.kind, eta(i, (x + cbs[i].r).saturating_sub(1)), pp)))
                .sum();
            let si = cost(e, eta(e, (x + eoc.r).saturating_sub(1)).saturating_sub(1));
            1 + di + si
        }) {
            Some(x) => x,
            None => return RefRes::Div(vec![0]),
        };
        let nself = eta(e, (sstar + eoc.r).saturating_sub(1)).saturating_sub(1);
        let omega = cost(e, nself + 1) - cost(e, nself);
        RefRes::Ok(st(&t.sbf, t.sbf[sstar as usize].saturating_sub(1) + omega))
    }
}

fn check21(c: &Case21) -> CheckResult {
    let mut out = Outcome::default();
    let n = c.cbs.len();
    let upto = 2 * TMAX + 200;
    let built = guard(|| {
        let arrs: Vec<Ab> = c.cbs.iter().map(|cb| cb.arr.build()).collect();
        let costs: Vec<Rc<dyn JobCostModel>> = c.cbs.iter().map(|cb| cb.cost.build()).collect();
        let eta: Vec<Vec<u64>> = arrs.iter().map(|a| (0..=upto).map(|x| a.number_arrivals(d(x)) as u64).collect()).collect();
        let maxn: u64 = eta.iter().map(|v| *v.last().unwrap()).max().unwrap_or(0) + 2;
        let cost: Vec<Vec<u64>> = costs.iter().map(|k| (0..=maxn).map(|j| su(k.cost_of_jobs(j as usize))).collect()).collect();
        (arrs, costs, Tab21 { eta, cost, sbf: c.supply.ref_table(upto + 2) })
    });
    let (arrs, costs, tab) = match built {
        Ok(x) => x,
        Err(_) => {
            out.label("construction-failed(skipped)");
            return Ok(out);
        }
    };
    let huge = reference21(c, &tab, TMAX);
    let limit = match (&c.limit, &huge) {
        (LimitSel::Huge, _) => TMAX,
        (LimitSel::Absolute(x), _) => *x,
        (LimitSel::AtResult, RefRes::Ok(r)) => (*r).clamp(1, TMAX),
        (LimitSel::BelowResult, RefRes::Ok(r)) => r.saturating_sub(1).clamp(1, TMAX),
        _ => 300,
    };
    let exp = if limit == TMAX { huge } else { reference21(c, &tab, limit) };
    let sup = c.supply.build();
    let got = guard(|| {
        if c.use_bw {
            let wl: Vec<_> = (0..n).map(|i| bw::Callback::new(d(c.cbs[i].r), &arrs[i], &costs[i], ct(c.cbs[i].kind))).collect();
            let sc: Vec<_> = c.chain.iter().map(|i| &wl[*i]).collect();
            bw::rta_subchain(&sup, &wl[..], &sc[..], d(limit))
        } else {
            let wl: Vec<_> = (0..n).map(|i| rr::Callback::new(d(c.cbs[i].r), &arrs[i], &costs[i], ct(c.cbs[i].kind))).collect();
            let sc: Vec<_> = c.chain.iter().map(|i| &wl[*i]).collect();
            rr::rta_subchain(&sup, &wl[..], &sc[..], d(limit))
        }
    });
    let got = match got {
        Ok(g) => g,
        Err(e) if e.contains("verif-step-budget") => {
            out.label("step-budget-exhausted(skipped)");
            return Ok(out);
        }
        Err(e) => return Err(format!("{} panicked: {} (limit {})", if c.use_bw { "bw::rta_subchain" } else { "rr::rta_subchain" }, e, limit)),
    };
    let name = if c.use_bw { "bw::rta_subchain" } else { "rr::rta_subchain" };
    compare(name, got, &exp, limit)?;
    out.inner = 1;
    out.nontrivial = n >= 2 && (!c.supply.is_dedicated() || matches!(exp, RefRes::Ok(x) if x > 0));
    out.label(name);
    out.label_if(matches!(exp, RefRes::Div(_)), "err");
    out.label_if(c.chain.len() >= 2, "multi-callback-subchain");
    out.label_if(!c.supply.is_dedicated(), "reservation");
    out.label_if(c.cbs.iter().any(|cb| !cb.cost.is_scalar()), "multiframe");
    Ok(out)
}

fn dec_limit(d: &mut crate::dec::Dec) -> LimitSel {
    match d.pick(5) {
        0 | 1 => LimitSel::Huge,
        2 => LimitSel::Absolute(d.range(1, 250)),
        3 => LimitSel::AtResult,
        _ => LimitSel::BelowResult,
    }
}

pub fn decode19(d: &mut crate::dec::Dec) -> Case19 {
    use crate::dec::*;
    let g = DecArr { tmax: 40, never: false, derived: false, acp: false };
    let own = (dec_arr(d, g, 1), dec_cost(d, 7, false, true));
    let others = d.vec(0, 3, |d| (dec_arr(d, g, 1), dec_cost(d, 7, false, true)));
    let supply = dec_supply(d, 8);
    let call = match d.pick(4) {
        0 => Call19::EventSource,
        1 => Call19::Timer { blocking: d.range(0, 7) },
        2 => Call19::Pp,
        _ => Call19::Chain { prefix_cost: d.range(0, 7) },
    };
    // keep the utilisation below the bandwidth most of the time
    let mut k = Case19 { own, others, supply, call, limit: dec_limit(d) };
    let bw = match k.supply.qdp() {
        Some((q, _, p)) => q as f64 / p as f64,
        None => 1.0,
    };
    let u: f64 = std::iter::once(&k.own).chain(k.others.iter()).map(|(a, c)| c.wcet() as f64 * crate::tasks::rate_of(a)).sum();
    if u > bw {
        let f = (u / bw).ceil() as u64 + (d.byte() % 2) as u64;
        stretch(&mut k.own.0, f);
        for o in k.others.iter_mut() {
            stretch(&mut o.0, f);
        }
    }
    k
}

pub fn decode21(d: &mut crate::dec::Dec) -> Case21 {
    use crate::dec::*;
    let g = DecArr { tmax: 40, never: false, derived: false, acp: false };
    let mut cbs = d.vec(1, 4, |d| {
        let arr = dec_arr(d, g, 1);
        let cost = dec_cost(d, 7, false, true);
        let kind = match d.pick(4) {
            0 => Kind21::Timer,
            1 => Kind21::EventSource,
            2 => Kind21::Unknown,
            _ => Kind21::Polled(d.range(0, 4) as i32),
        };
        Cb21 { arr, cost, kind, r: d.range(1, 90) }
    });
    let supply = dec_supply(d, 8);
    let bw = match supply.qdp() {
        Some((q, _, p)) => q as f64 / p as f64,
        None => 1.0,
    };
    let u: f64 = cbs.iter().map(|c| c.cost.wcet() as f64 * crate::tasks::rate_of(&c.arr)).sum();
    if u > bw {
        let f = (u / bw).ceil() as u64 + (d.byte() % 2) as u64;
        for c in cbs.iter_mut() {
            stretch(&mut c.arr, f);
        }
    }
    let n = cbs.len();
    let mut idx: Vec<usize> = (0..n).collect();
    for i in 0..n {
        let j = i + d.pick(n - i);
        idx.swap(i, j);
    }
    idx.truncate(1 + d.pick(n));
    Case21 { cbs, supply, chain: idx, use_bw: d.flag(), limit: dec_limit(d) }
}

/// Run the ECRTS'19 analysis selected by the case on the given supply (may panic inside the crate).
pub fn run19(c: &Case19, supply: &SupplySpec, limit: u64) -> Result<response_time_analysis::time::Duration, SearchFailure> {
    let own = mk_rbf(&c.own.0, &c.own.1);
    let others: Vec<Rb> = c.others.iter().map(|(a, k)| mk_rbf(a, k)).collect();
    let prefix: Rb = match &c.call {
        Call19::Chain { prefix_cost } if *prefix_cost > 0 => mk_rbf(&c.own.0, &CostSpec::Scalar { c: *prefix_cost }),
        _ => Rc::new(demand::Aggregate::<Rb>::new(vec![])),
    };
    let sup = supply.build();
    let agg = demand::Aggregate::new(others);
    match &c.call {
        Call19::EventSource => ros2::rta_event_source(&sup, &own, d(limit)),
        Call19::Timer { blocking } => ros2::rta_timer(&sup, &own, &agg, s(*blocking), d(limit)),
        Call19::Pp => ros2::rta_polling_point_callback(&sup, &own, &agg, d(limit)),
        Call19::Chain { .. } => {
            let full: Vec<Rb> = vec![own.clone(), prefix.clone()];
            ros2::rta_processing_chain(&sup, &own, &prefix, &demand::Aggregate::new(full), &agg, d(limit))
        }
    }
}

/// Run the RTSS'21 analysis selected by the case on the given supply (may panic inside the crate).
pub fn run21(c: &Case21, supply: &SupplySpec, limit: u64) -> Result<response_time_analysis::time::Duration, SearchFailure> {
    let n = c.cbs.len();
    let arrs: Vec<Ab> = c.cbs.iter().map(|cb| cb.arr.build()).collect();
    let costs: Vec<Rc<dyn JobCostModel>> = c.cbs.iter().map(|cb| cb.cost.build()).collect();
    let sup = supply.build();
    if c.use_bw {
        let wl: Vec<_> = (0..n).map(|i| bw::Callback::new(d(c.cbs[i].r), &arrs[i], &costs[i], ct(c.cbs[i].kind))).collect();
        let sc: Vec<_> = c.chain.iter().map(|i| &wl[*i]).collect();
        bw::rta_subchain(&sup, &wl[..], &sc[..], d(limit))
    } else {
        let wl: Vec<_> = (0..n).map(|i| rr::Callback::new(d(c.cbs[i].r), &arrs[i], &costs[i], ct(c.cbs[i].kind))).collect();
        let sc: Vec<_> = c.chain.iter().map(|i| &wl[*i]).collect();
        rr::rta_subchain(&sup, &wl[..], &sc[..], d(limit))
    }
}

/// exhaustive stage over tiny ROS 2 workloads
fn exhaustive(tier: Tier, _seed: u64) -> ExtraResult {
    let mut r = ExtraResult { exhaustive: true, replay_subcheck: "ecrts19", ..Default::default() };
    let supplies = vec![
        SupplySpec::Dedicated,
        SupplySpec::Periodic { q: 1, p: 2 },
        SupplySpec::Periodic { q: 2, p: 3 },
        SupplySpec::Constrained { q: 1, d: 2, p: 3 },
    ];
    let ts_: Vec<u64> = tier.pick(vec![3, 5], vec![3, 4, 5, 7]);
    let js: Vec<u64> = tier.pick(vec![0, 2, 6], vec![0, 1, 2, 4, 6, 9]);
    let costs = vec![CostSpec::Scalar { c: 1 }, CostSpec::Scalar { c: 2 }, CostSpec::Multiframe { costs: vec![2, 1] }];
    // (a) ECRTS'19
    let mut owns = vec![];
    for &t in &ts_ {
        for &j in &js {
            for c in &costs {
                owns.push((ArrSpec::Sporadic { t, j }, c.clone()));
            }
        }
    }
    let others_opts: Vec<Vec<(ArrSpec, CostSpec)>> = vec![
        vec![],
        vec![(ArrSpec::Sporadic { t: 4, j: 0 }, CostSpec::Scalar { c: 1 })],
        vec![(ArrSpec::Sporadic { t: 4, j: 5 }, CostSpec::Scalar { c: 2 })],
        vec![(ArrSpec::Periodic { t: 6 }, CostSpec::Multiframe { costs: vec![3, 1] }), (ArrSpec::Periodic { t: 7 }, CostSpec::Scalar { c: 1 })],
    ];
    let calls = vec![
        Call19::EventSource,
        Call19::Timer { blocking: 0 },
        Call19::Timer { blocking: 2 },
        Call19::Pp,
        Call19::Chain { prefix_cost: 0 },
        Call19::Chain { prefix_cost: 1 },
    ];
    for own in &owns {
        for others in &others_opts {
            for supply in &supplies {
                for call in &calls {
                    for limit in [LimitSel::Huge, LimitSel::AtResult, LimitSel::BelowResult] {
                        let c = Case19 { own: own.clone(), others: others.clone(), supply: supply.clone(), call: call.clone(), limit };
                        r.evaluations += 1;
                        match check19(&c) {
                            Ok(o) => {
                                if o.nontrivial {
                                    r.nontrivial += 1;
                                }
                            }
                            Err(msg) => {
                                r.failure = Some((serde_json::to_value(&c).unwrap(), msg));
                                return r;
                            }
                        }
                    }
                }
            }
        }
    }
    // (b) RTSS'21: every pair of callbacks from a small grid
    let kinds = [Kind21::Timer, Kind21::EventSource, Kind21::Unknown, Kind21::Polled(0), Kind21::Polled(1)];
    let mut cbs = vec![];
    for &t in &ts_ {
        for &j in &js {
            for k in kinds {
                for rr_ in [1u64, 4, 9] {
                    cbs.push(Cb21 { arr: ArrSpec::Sporadic { t, j }, cost: CostSpec::Scalar { c: 1 + (t + j) % 2 }, kind: k, r: rr_ });
                }
            }
        }
    }
    let stride = tier.pick(29usize, 3usize);
    for (ia, a) in cbs.iter().enumerate() {
        for (ib, b) in cbs.iter().enumerate() {
            if (ia * 31 + ib) % stride != 0 {
                continue;
            }
            for supply in &supplies {
                for chain in [vec![0usize], vec![1], vec![0, 1]] {
                    for use_bw in [false, true] {
                        let c = Case21 { cbs: vec![a.clone(), b.clone()], supply: supply.clone(), chain: chain.clone(), use_bw, limit: LimitSel::Huge };
                        r.evaluations += 1;
                        match check21(&c) {
                            Ok(o) => {
                                if o.nontrivial {
                                    r.nontrivial += 1;
                                }
                            }
                            Err(msg) => {
                                r.replay_subcheck = "rtss21";
                                r.failure = Some((serde_json::to_value(&c).unwrap(), msg));
                                return r;
                            }
                        }
                    }
                }
            }
        }
    }
    r.note = format!(
        "ECRTS'19: every own callback Sporadic(T in {:?}, J in {:?}) x cost {{1, 2, multiframe [2,1]}} x 4 interferer sets x 4 supplies x 6 calls x limits huge / = result / result-1; RTSS'21: pairs of callbacks from the same grid x 5 kinds x assumed bounds {{1,4,9}} (every {}-th pair) x 4 supplies x 3 subchains x rr/bw",
        ts_, js, stride
    );
    r
}

pub fn def() -> PropertyDef {
    PropertyDef {
        id: "C07",
        rule: "generated: (a) an own callback and 0-3 others (arrival specs with jitter / bursts / plateaus, scalar and multiframe costs), supply Dedicated / Periodic / Constrained (P <= 8), one of rta_event_source / rta_timer (arbitrary blocking) / rta_polling_point_callback / rta_processing_chain (last + scalar prefix on the same source curve, consistent full chain), limit (huge / absolute / equal to the result / one below); (b) 1-4 callbacks of all four kinds (Timer, EventSource, PolledUnknownPrio, Polled(p)) with arbitrary assumed bounds 1..90, a subchain = random permutation prefix (singleton and multi-callback), rr or bw. Oracle: service_needed / least_wcet_in_interval / number_arrivals / cost_of_jobs tabulated as black boxes, SBF and its inverse computed from (Q,D,P) alone; the defining inequalities (Lemmas 1, 3, 4/5, 8 with EVERY offset 0..=max busy window; Def. 1-3, 5, Lemma 18, Theorems 2 and 3 with EVERY activation offset below the maximum offset) evaluated with linear-scan fixed points; exact equality of Ok values, Err iff some required fixed point does not exist within the limit. Non-trivial: >= 2 callbacks or a non-dedicated supply. Inputs on which the crate panics are skipped here (C20). Distinct by case JSON.".into(),
        assumptions: vec![
            "request/arrival/cost bounds are black boxes here; subchain members are distinct callbacks of the workload".into(),
            "cost models are valid bounds on every run of consecutive jobs: scalar, or multiframe vectors in non-increasing order (for other vectors cost_of_jobs(n) is not the maximum over all runs of n jobs, the request bound is not sub-additive, and restricting the search to step offsets is not lossless - the crate's unordered Multiframe is C14/C16 material)".into(),
            "limits >= 1".into(),
        ],
        subchecks: vec![
            subcheck("ecrts19", (8000, 150_000), strategy19, check19).with_decoder(decode19, check19),
            subcheck("rtss21", (4000, 100_000), strategy21, check21).with_decoder(decode21, check21),
        ],
        extra: Some(Box::new(exhaustive)),
    }
}

//! C19 — analyses agree with each other on their common special cases.

use proptest::prelude::*;
use response_time_analysis::demand::{self, RBF};
use response_time_analysis::ros2;
use response_time_analysis::wcet::Scalar;
use serde::{Deserialize, Serialize};

use crate::arr::*;
use crate::engine::*;
use crate::props::c07::{self, Case19, Case21};
use crate::supply_ref::*;
use crate::tasks::*;

#[derive(Clone, Copy, Debug, Serialize, Deserialize)]
pub enum Relation {
    /// LP-FP(last = 1, B) == floating-NP-FP(B)
    LpVsFloating,
    /// LP-FP(last = 1, B = 0) == fully preemptive FP
    LpVsPreemptive,
    /// LP-FP(last = WCET, B) == NP-FP(B)
    LpVsNonpreemptive,
    /// EDF: LP with all segments 1 == floating with regions of length 1 == fully preemptive
    EdfAllOnes,
    /// EDF: LP with all segments = WCET == NP-EDF
    EdfAllWcet,
    /// equal relative deadlines: max_i NP-EDF_i == FIFO
    NpEdfVsFifo,
    /// event source on a dedicated processor == FIFO
    EventSourceVsFifo,
}

#[derive(Clone, Debug, Serialize, Deserialize)]
pub struct UniCase {
    pub tasks: Vec<TaskSpec>,
    pub tua: usize,
    pub relation: Relation,
    pub blocking: u64,
    pub limit: u64,
    pub wrap: Wrap,
}

fn uni_strategy(tier: Tier) -> BoxedStrategy<UniCase> {
    let g = TaskGen {
        arr: ArrGen { tmax: tier.pick(50, 100), never: true, plateau_end: true, plain_curves: true, derived: false, acp: false, loose: false, poisson: false, depth: 1 },
        cmax: 9,
        nmax: 4,
        dfac: 3,
    };
    (
        taskset_strategy(g),
        0usize..4,
        proptest::sample::select(vec![
            Relation::LpVsFloating,
            Relation::LpVsPreemptive,
            Relation::LpVsNonpreemptive,
            Relation::EdfAllOnes,
            Relation::EdfAllWcet,
            Relation::NpEdfVsFifo,
            Relation::EventSourceVsFifo,
        ]),
        0u64..10,
        prop_oneof![3 => Just(3000u64), 2 => 1u64..300],
        c06_wrap(),
    )
        .prop_map(|(tasks, tua, relation, blocking, limit, wrap)| {
            let tua = tua % tasks.len();
            UniCase { tasks, tua, relation, blocking, limit, wrap }
        })
        .boxed()
}

fn c06_wrap() -> BoxedStrategy<Wrap> {
    prop_oneof![Just(Wrap::Plain), Just(Wrap::Boxed), Just(Wrap::Refs)].boxed()
}

fn with_segs(ts: &[TaskSpec], f: impl Fn(usize, &TaskSpec) -> Vec<u64>) -> Vec<TaskSpec> {
    ts.iter()
        .enumerate()
        .map(|(i, t)| {
            let mut t2 = t.clone();
            t2.segs = f(i, t);
            t2
        })
        .collect()
}

fn ones_then_last(w: u64) -> Vec<u64> {
    vec![1; w as usize]
}

fn run(ts: &[TaskSpec], an: Analysis, tua: usize, limit: u64, blocking: Option<u64>, wrap: Wrap) -> Result<Res, String> {
    guard(|| {
        let b = build_tasks(ts);
        Res::from(run_analysis(ts, &b, an, tua, limit, blocking, wrap))
    })
}

fn check_uni(c: &UniCase) -> CheckResult {
    let mut out = Outcome::default();
    let ts = &c.tasks;
    let tua = c.tua;
    let pair: Result<(String, Res, String, Res), String> = (|| {
        Ok(match c.relation {
            Relation::LpVsFloating => {
                let t1 = with_segs(ts, |i, t| if i == tua { ones_then_last(t.wcet) } else { t.segs.clone() });
                (
                    "LP-FP(last=1,B)".into(),
                    run(&t1, Analysis::FpLp, tua, c.limit, Some(c.blocking), c.wrap)?,
                    "floating-NP-FP(B)".into(),
                    run(ts, Analysis::FpFl, tua, c.limit, Some(c.blocking), c.wrap)?,
                )
            }
            Relation::LpVsPreemptive => {
                let t1 = with_segs(ts, |i, t| if i == tua { ones_then_last(t.wcet) } else { t.segs.clone() });
                (
                    "LP-FP(last=1,B=0)".into(),
                    run(&t1, Analysis::FpLp, tua, c.limit, Some(0), c.wrap)?,
                    "preemptive FP".into(),
                    run(ts, Analysis::FpP, tua, c.limit, None, c.wrap)?,
                )
            }
            Relation::LpVsNonpreemptive => {
                let t1 = with_segs(ts, |i, t| if i == tua { vec![t.wcet] } else { t.segs.clone() });
                (
                    "LP-FP(last=WCET,B)".into(),
                    run(&t1, Analysis::FpLp, tua, c.limit, Some(c.blocking), c.wrap)?,
                    "NP-FP(B)".into(),
                    run(ts, Analysis::FpNp, tua, c.limit, Some(c.blocking), c.wrap)?,
                )
            }
            Relation::EdfAllOnes => {
                let mut t1 = with_segs(ts, |_, t| ones_then_last(t.wcet));
                for t in t1.iter_mut() {
                    t.max_np = 1;
                }
                let lp = run(&t1, Analysis::EdfLp, tua, c.limit, None, c.wrap)?;
                let fl = run(&t1, Analysis::EdfFl, tua, c.limit, None, c.wrap)?;
                let p = run(&t1, Analysis::EdfP, tua, c.limit, None, c.wrap)?;
                if lp != fl {
                    ("LP-EDF(all segments 1)".into(), lp, "floating-NP-EDF(regions 1)".into(), fl)
                } else {
                    ("LP-EDF(all segments 1)".into(), lp, "preemptive EDF".into(), p)
                }
            }
            Relation::EdfAllWcet => {
                let t1 = with_segs(ts, |_, t| vec![t.wcet]);
                (
                    "LP-EDF(all segments = WCET)".into(),
                    run(&t1, Analysis::EdfLp, tua, c.limit, None, c.wrap)?,
                    "NP-EDF".into(),
                    run(&t1, Analysis::EdfNp, tua, c.limit, None, c.wrap)?,
                )
            }
            Relation::NpEdfVsFifo => {
                let dl = ts[0].deadline;
                let t1: Vec<TaskSpec> = ts
                    .iter()
                    .map(|t| {
                        let mut t2 = t.clone();
                        t2.deadline = dl;
                        t2
                    })
                    .collect();
                let mut worst: Option<Res> = None;
                for i in 0..t1.len() {
                    // a task that never releases a job has no response time to bound (its analysis
                    // result is vacuous), so it does not take part in the maximum
                    if t1[i].arr.never_arrives() {
                        continue;
                    }
                    let r = run(&t1, Analysis::EdfNp, i, c.limit, None, c.wrap)?;
                    worst = Some(match (worst, r) {
                        (None, r) => r,
                        (Some(w), r) if w.is_err() => {
                            let _ = r;
                            w
                        }
                        (Some(_), r) if r.is_err() => r,
                        (Some(Res::Ok(a)), Res::Ok(b)) => Res::Ok(a.max(b)),
                        (Some(w), _) => w,
                    });
                }
                let f = run(&t1, Analysis::Fifo, 0, c.limit, None, c.wrap)?;
                let w = worst.unwrap_or(Res::Ok(0));
                // Err iff Err (the error payloads name the same limit and offset 0 in both)
                ("max_i NP-EDF_i (equal deadlines)".into(), w, "FIFO".into(), f)
            }
            Relation::EventSourceVsFifo => {
                let f = run(ts, Analysis::Fifo, 0, c.limit, None, c.wrap)?;
                let e = guard(|| {
                    let rbfs: Vec<RBF<Ab, Scalar>> = ts.iter().map(|t| RBF::new(t.arr.build(), Scalar::new(s(t.wcet)))).collect();
                    Res::from(ros2::rta_event_source(&SupplySpec::Dedicated.build(), &demand::Aggregate::new(rbfs), d(c.limit)))
                })?;
                ("rta_event_source(Dedicated)".into(), e, "FIFO".into(), f)
            }
        })
    })();
    let (n1, r1, n2, r2) = match pair {
        Ok(x) => x,
        Err(_) => {
            out.label("analysis-panicked(skipped)");
            return Ok(out);
        }
    };
    let same = match (&r1, &r2) {
        (Res::Ok(a), Res::Ok(b)) => a == b,
        (Res::Ok(_), _) | (_, Res::Ok(_)) => false,
        // both diverge (which offset an error names differs legitimately between analyses)
        _ => true,
    };
    if !same {
        return Err(format!("{:?}: {} = {:?} but {} = {:?} (limit {})", c.relation, n1, r1, n2, r2, c.limit));
    }
    out.inner = 2;
    out.nontrivial = ts.len() >= 2 && r1.ok().map(|r| r > ts[tua].wcet).unwrap_or(false);
    out.label_if(r1.is_err(), "both-err");
    out.label(match c.relation {
        Relation::LpVsFloating => "lp-vs-floating",
        Relation::LpVsPreemptive => "lp-vs-preemptive",
        Relation::LpVsNonpreemptive => "lp-vs-np",
        Relation::EdfAllOnes => "edf-all-ones",
        Relation::EdfAllWcet => "edf-all-wcet",
        Relation::NpEdfVsFifo => "np-edf-vs-fifo",
        Relation::EventSourceVsFifo => "event-source-vs-fifo",
    });
    Ok(out)
}

// --- ROS 2: Dedicated == Periodic(P,P) == Constrained(P,P,P) -------------------------

#[derive(Clone, Debug, Serialize, Deserialize)]
pub enum RosCase {
    E19(Case19),
    R21(Case21),
}

#[derive(Clone, Debug, Serialize, Deserialize)]
pub struct SupCase {
    pub case: RosCase,
    pub p: u64,
    pub limit: u64,
}

fn sup_strategy(tier: Tier) -> BoxedStrategy<SupCase> {
    (
        prop_oneof![c07::strategy19(tier).prop_map(RosCase::E19), c07::strategy21(tier).prop_map(RosCase::R21)],
        1u64..40,
        prop_oneof![3 => Just(1400u64), 2 => 1u64..300],
    )
        .prop_map(|(case, p, limit)| SupCase { case, p, limit })
        .boxed()
}

fn check_sup(c: &SupCase) -> CheckResult {
    let mut out = Outcome::default();
    let sups = [
        SupplySpec::Dedicated,
        SupplySpec::Periodic { q: c.p, p: c.p },
        SupplySpec::Constrained { q: c.p, d: c.p, p: c.p },
    ];
    let mut res = vec![];
    for sp in &sups {
        let r = guard(|| match &c.case {
            RosCase::E19(k) => c07::run19(k, sp, c.limit),
            RosCase::R21(k) => c07::run21(k, sp, c.limit),
        });
        match r {
            Ok(r) => res.push(Res::from(r)),
            Err(_) => {
                out.label("analysis-panicked(skipped)");
                return Ok(out);
            }
        }
    }
    let same = |a: &Res, b: &Res| match (a, b) {
        (Res::Ok(x), Res::Ok(y)) => x == y,
        (Res::Ok(_), _) | (_, Res::Ok(_)) => false,
        _ => true,
    };
    if !same(&res[0], &res[1]) || !same(&res[0], &res[2]) {
        return Err(format!(
            "dedicated processor: {:?}, Periodic({p},{p}): {:?}, Constrained({p},{p},{p}): {:?}",
            res[0],
            res[1],
            res[2],
            p = c.p
        ));
    }
    out.inner = 3;
    out.nontrivial = match &c.case {
        RosCase::E19(k) => !k.others.is_empty(),
        RosCase::R21(k) => k.cbs.len() >= 2,
    } && res[0].ok().map(|r| r > 1).unwrap_or(false);
    out.label_if(res[0].is_err(), "err");
    out.label(match &c.case {
        RosCase::E19(_) => "ecrts19",
        RosCase::R21(_) => "rtss21",
    });
    Ok(out)
}

pub fn def() -> PropertyDef {
    PropertyDef {
        id: "C19",
        rule: "generated: task sets as C06 (1-4 tasks, jitter / bursts / plateaus, equal priorities, deadlines up to 3T), the analysed task, a blocking bound, a limit (3000 or small), RBF wrapping, and one of seven relations: LP-FP(last=1,B) = floating-FP(B); LP-FP(last=1,0) = preemptive FP; LP-FP(last=WCET,B) = NP-FP(B); LP-EDF with all segments 1 = floating-EDF with regions 1 = preemptive EDF; LP-EDF with all segments = WCET = NP-EDF; equal relative deadlines: max_i NP-EDF_i = FIFO (Err iff Err); rta_event_source on a dedicated processor = FIFO. Second sub-check: every ROS 2 analysis (generated as in C07, incl. multi-callback subchains and all callback kinds) on Dedicated vs Periodic(P,P) vs Constrained(P,P,P) for generated P. Oracle: differential - Ok/Err and values identical. Non-trivial: >= 2 tasks/callbacks and a result larger than the WCET (resp. > 1). Inputs on which an analysis panics are skipped (C20). Distinct by case JSON.".into(),
        assumptions: vec!["the analysed task releases at least one job is NOT assumed; cases where an analysis panics are left to C20".into()],
        subchecks: vec![
            subcheck("uniprocessor", (2500, 80_000), uni_strategy, check_uni),
            subcheck("supply-equivalence", (1200, 40_000), sup_strategy, check_sup),
        ],
        extra: None,
    }
}

//! C12 — derived arrival curves dominate their source and are exact on the covered prefix.

use proptest::prelude::*;
use response_time_analysis::arrival::{self, ArrivalBound, Curve, ExtrapolatingCurve};
use response_time_analysis::time::Offset;
use serde::{Deserialize, Serialize};

use crate::arr::*;
use crate::engine::*;
use crate::supply_ref::{d, du};

pub const KNOWN_TRACE_BURST: &str = "C12/from-trace-burst-larger-than-prefix";

// --- traces ---------------------------------------------------------------------

#[derive(Clone, Debug, Serialize, Deserialize)]
pub struct TraceCase {
    pub trace: Vec<u64>,
    pub prefix_jobs: usize,
    pub extrapolating: bool,
}

pub fn trace_strategy(_tier: Tier) -> BoxedStrategy<TraceCase> {
    (
        proptest::collection::vec(prop_oneof![2 => Just(0u64), 3 => 1u64..=3, 5 => 1u64..=40], 1..24),
        prop_oneof![1 => 1usize..=2, 6 => 3usize..=8],
        any::<bool>(),
        0u64..50,
    )
        .prop_map(|(gaps, prefix_jobs, extrapolating, start)| {
            let mut t = start;
            let mut trace = vec![t];
            for g in gaps {
                t += g;
                trace.push(t);
            }
            TraceCase { trace, prefix_jobs, extrapolating }
        })
        .boxed()
}

/// the delta-min prefix a trace implies for windows of up to prefix_jobs+1 events
fn ref_trace_dmin(trace: &[u64], prefix_jobs: usize) -> Vec<u64> {
    let mut out = vec![];
    for k in 1..=prefix_jobs {
        // min span of k+1 consecutive events
        if trace.len() <= k {
            break;
        }
        out.push((0..trace.len() - k).map(|i| trace[i + k] - trace[i]).min().unwrap());
    }
    out
}

fn check_trace(c: &TraceCase) -> CheckResult {
    let mut out = Outcome::default();
    let refd = ref_trace_dmin(&c.trace, c.prefix_jobs);
    let all_zero = refd.iter().all(|x| *x == 0);
    let span = c.trace.last().unwrap() - c.trace[0];
    let upto = span + 30;
    // an all-zero inferred prefix (the known finding) makes the extrapolation loop spin: use a
    // small step budget there so that the outcome (known finding either way) is reached quickly
    let budget = if all_zero { 3_000 } else { STEP_BUDGET };
    let r = guard_with_budget(budget, || {
        let curve = Curve::from_trace(c.trace.iter().map(|x| Offset::from(*x)), c.prefix_jobs);
        let ab: Ab = if c.extrapolating {
            std::rc::Rc::new(ExtrapolatingCurve::new(curve))
        } else {
            std::rc::Rc::new(curve)
        };
        (0..=upto).map(|x| ab.number_arrivals(d(x))).collect::<Vec<usize>>()
    });
    let eta = match r {
        Ok(v) => v,
        Err(e) => {
            let msg = format!("from_trace / number_arrivals panicked: {}", e);
            if all_zero && (e.contains("divide by zero") || e.contains("verif-step-budget:arrival::Curve::extrapolate")) {
                // more than prefix_jobs simultaneous events: the inferred prefix has no positive distance
                return known_or_violation(KNOWN_TRACE_BURST, msg, out);
            }
            return Err(msg);
        }
    };
    let ev: Vec<i64> = c.trace.iter().map(|x| *x as i64).collect();
    let mw = max_window_table(&ev, upto);
    for delta in 0..=upto as usize {
        if mw[delta] > eta[delta] {
            return Err(format!(
                "the trace has {} events in a window of length {} but the inferred curve says {}",
                mw[delta], delta, eta[delta]
            ));
        }
    }
    // (exactness inside the recorded prefix is not claimed for trace-derived curves: only that the
    // curve bounds the trace; an over-approximation is allowed)
    out.inner = upto;
    let burst = c.trace.windows(2).any(|w| w[0] == w[1]);
    let gaps: std::collections::BTreeSet<u64> = c.trace.windows(2).map(|w| w[1] - w[0]).collect();
    out.nontrivial = (burst || gaps.len() >= 2) && span > *refd.last().unwrap();
    out.label_if(burst, "simultaneous-events");
    out.label_if(c.extrapolating, "extrapolating");
    Ok(out)
}

// --- curves / prefixes derived from other arrival bounds ---------------------------

#[derive(Clone, Debug, Serialize, Deserialize)]
pub enum Derive {
    Jobs { n: usize },
    Until { h: u64 },
    Acp { h: u64 },
    CurveFromAcp { h: u64 },
    /// From<Periodic> / From<Sporadic> (source must be Periodic / Sporadic)
    FromImpl,
}

#[derive(Clone, Debug, Serialize, Deserialize)]
pub struct DerivedCase {
    pub source: ArrSpec,
    pub how: Derive,
}

/// sub-additive sources only
fn source_strategy(tmax: u64) -> BoxedStrategy<ArrSpec> {
    let leaf = prop_oneof![
        3 => (1..=tmax).prop_map(|t| ArrSpec::Periodic { t }),
        4 => (1..=tmax, prop_oneof![2 => Just(0u64), 3 => 0..=tmax, 2 => 0..=4 * tmax]).prop_map(|(t, j)| ArrSpec::Sporadic { t, j }),
        5 => dmin_strategy(6, tmax, true).prop_map(|dmin| ArrSpec::Curve { dmin, extrapolating: true }),
    ];
    leaf.prop_recursive(2, 8, 3, move |inner| {
        prop_oneof![
            3 => (inner.clone(), 0..=3 * tmax).prop_map(|(i, j)| ArrSpec::Jittered { inner: i.boxed(), j }),
            2 => (inner.clone(), inner.clone()).prop_map(|(a, b)| ArrSpec::Sum { a: a.boxed(), b: b.boxed() }),
            1 => proptest::collection::vec(inner.clone(), 1..=3).prop_map(|items| ArrSpec::VecOf { items }),
        ]
    })
    .boxed()
}

fn derived_strategy(tier: Tier) -> BoxedStrategy<DerivedCase> {
    let tmax = tier.pick(30, 60);
    prop_oneof![
        8 => (
            source_strategy(tmax),
            prop_oneof![
                (1usize..16).prop_map(|n| Derive::Jobs { n }),
                (1..=6 * tmax).prop_map(|h| Derive::Until { h }),
                (1..=6 * tmax).prop_map(|h| Derive::Acp { h }),
                (1..=6 * tmax).prop_map(|h| Derive::CurveFromAcp { h }),
            ]
        )
            .prop_map(|(source, how)| DerivedCase { source, how }),
        1 => (1..=tmax).prop_map(|t| DerivedCase { source: ArrSpec::Periodic { t }, how: Derive::FromImpl }),
        2 => (1..=tmax, 0..=4 * tmax).prop_map(|(t, j)| DerivedCase { source: ArrSpec::Sporadic { t, j }, how: Derive::FromImpl }),
    ]
    .boxed()
}

fn check_derived(c: &DerivedCase) -> CheckResult {
    let mut out = Outcome::default();
    let src = guard(|| c.source.build()).map_err(|e| format!("constructing the source panicked: {}", e))?;
    let spec = match &c.how {
        Derive::Jobs { n } => ArrSpec::CurveOfJobs { inner: c.source.clone().boxed(), n: *n },
        Derive::Until { h } => ArrSpec::CurveOfUntil { inner: c.source.clone().boxed(), h: *h },
        Derive::Acp { h } => ArrSpec::AcpOf { inner: c.source.clone().boxed(), h: *h },
        Derive::CurveFromAcp { h } => ArrSpec::CurveFromAcp { inner: ArrSpec::AcpOf { inner: c.source.clone().boxed(), h: *h }.boxed() },
        Derive::FromImpl => match &c.source {
            ArrSpec::Periodic { t } => ArrSpec::CurveFromPeriodic { t: *t },
            ArrSpec::Sporadic { t, j } => ArrSpec::CurveFromSporadic { t: *t, j: *j },
            _ => unreachable!(),
        },
    };
    let derived = guard(|| spec.build()).map_err(|e| format!("deriving the curve panicked: {}", e))?;
    // covered prefix
    let covered: u64 = match &c.how {
        Derive::Acp { h } => *h,
        _ => {
            // largest recorded minimum distance of the derived Curve
            let cv = guard(|| match &spec {
                ArrSpec::CurveOfJobs { inner, n } => Curve::from_arrival_bound(&inner.build(), *n),
                ArrSpec::CurveOfUntil { inner, h } => Curve::from_arrival_bound_until(&inner.build(), d(*h)),
                ArrSpec::CurveFromAcp { inner } => Curve::from(&inner.build_acp()),
                ArrSpec::CurveFromPeriodic { t } => Curve::from(arrival::Periodic::new(d(*t))),
                ArrSpec::CurveFromSporadic { t, j } => Curve::from(arrival::Sporadic::new(d(*t), d(*j))),
                _ => unreachable!(),
            })
            .map_err(|e| format!("deriving the curve panicked: {}", e))?;
            let l = du(cv.min_distance(usize::MAX));
            match &c.how {
                // beyond its horizon the intermediate prefix is deliberately pessimistic, and the
                // converted curve follows it there; the source is only matched up to the horizon
                Derive::CurveFromAcp { h } => l.min(*h),
                _ => l,
            }
        }
    };
    let far = (4 * covered + 6 * c.source.scale() + 50).min(4000);
    let (es, ed) = guard(|| {
        (
            (0..=far).map(|x| src.number_arrivals(d(x))).collect::<Vec<usize>>(),
            (0..=far).map(|x| derived.number_arrivals(d(x))).collect::<Vec<usize>>(),
        )
    })
    .map_err(|e| format!("number_arrivals panicked: {} (covered prefix {})", e, covered))?;
    for x in 0..=far as usize {
        if ed[x] < es[x] {
            return Err(format!("derived bound {} < source {} at delta={} (covered prefix {})", ed[x], es[x], x, covered));
        }
        if (x as u64) <= covered && ed[x] != es[x] {
            return Err(format!("derived bound {} != source {} at delta={} inside the covered prefix {}", ed[x], es[x], x, covered));
        }
    }
    out.inner = far;
    out.nontrivial = far > covered && (c.source.has_jitter() || c.source.has_burst() || c.source.depth() >= 1);
    out.label_if(matches!(c.how, Derive::Acp { .. }), "acp");
    out.label_if(matches!(c.how, Derive::CurveFromAcp { .. }), "curve-from-acp");
    out.label_if(matches!(c.how, Derive::FromImpl), "from-periodic/sporadic");
    out.label_if(c.source.has_burst(), "bursty-source");
    out.label_if(covered == 0, "covered=0");
    Ok(out)
}

// --- delta_min_iter duality -----------------------------------------------------

#[derive(Clone, Debug, Serialize, Deserialize)]
pub struct DminCase {
    pub spec: ArrSpec,
    pub take: usize,
}

fn dmin_case_strategy(tier: Tier) -> BoxedStrategy<DminCase> {
    let g = ArrGen { tmax: tier.pick(30, 60), never: true, plateau_end: true, plain_curves: true, derived: true, acp: true, loose: true, poisson: false, depth: 2 };
    (arr_strategy(g), 1usize..30).prop_map(|(spec, take)| DminCase { spec, take }).boxed()
}

fn check_dmin(c: &DminCase) -> CheckResult {
    let mut out = Outcome::default();
    let ab = match guard(|| c.spec.build()) {
        Ok(ab) => ab,
        Err(_) => {
            out.label("construction-failed(skipped)");
            return Ok(out);
        }
    };
    let items = guard(|| arrival::delta_min_iter(&ab).take(c.take + 2).map(|(n, x)| (n, du(x))).collect::<Vec<_>>())
        .map_err(|e| format!("delta_min_iter panicked: {}", e))?;
    // nonzero_delta_min_iter is the same sequence without the two default items
    let nz = guard(|| arrival::nonzero_delta_min_iter(&ab).take(c.take).map(|(n, x)| (n, du(x))).collect::<Vec<_>>())
        .map_err(|e| format!("nonzero_delta_min_iter panicked: {}", e))?;
    if items.len() >= 2 && nz[..] != items[2..] {
        return Err(format!("nonzero_delta_min_iter yields {:?}... but delta_min_iter continues {:?}... after its two default items", &nz[..nz.len().min(5)], &items[2..items.len().min(7)]));
    }
    // the two default items
    if items.len() < 2 || items[0] != (0, 0) || items[1] != (1, 0) {
        return Err(format!("delta_min_iter does not start with (0,0),(1,0): {:?}", &items[..items.len().min(3)]));
    }
    let mut expect_n = 2;
    for &(n, x) in &items[2..] {
        if n != expect_n {
            return Err(format!("delta_min_iter yields n={} where n={} is due", n, expect_n));
        }
        expect_n += 1;
        let (hi, lo) = guard(|| (ab.number_arrivals(d(x + 1)), ab.number_arrivals(d(x)))).map_err(|e| format!("number_arrivals panicked: {}", e))?;
        if !(hi >= n && lo < n) {
            return Err(format!(
                "delta_min_iter reports ({}, {}) but number_arrivals({}) = {} and number_arrivals({}) = {}",
                n,
                x,
                x + 1,
                hi,
                x,
                lo
            ));
        }
        out.inner += 1;
    }
    // if the iterator ended early, no more than expect_n - 1 events may ever arrive
    if items.len() < c.take + 2 {
        let far = guard(|| ab.number_arrivals(d(50_000))).map_err(|e| format!("number_arrivals panicked: {}", e))?;
        if far >= expect_n {
            return Err(format!("delta_min_iter ended after n={} although {} events fit into a window of 50000", expect_n - 1, far));
        }
        out.label("finite");
    }
    out.nontrivial = items.len() >= 5 && (c.spec.has_jitter() || c.spec.has_burst() || c.spec.depth() >= 1);
    out.label_if(c.spec.exposes_direct_acp(), "direct-acp");
    Ok(out)
}

pub fn def() -> PropertyDef {
    PropertyDef {
        id: "C12",
        rule: "generated: (a) event traces (non-decreasing offsets with simultaneous events, bursts and long gaps), prefix_jobs 1..8, plain and extrapolating wrapping: max events of the trace in any window of every length delta <= span+30 (window counting) <= curve(delta); (b) sub-additive sources (Periodic, Sporadic with J <= 4T, extrapolating super-additive curves incl. plateau-ended ones, jittered clones, sums, vectors; depth <= 2) with from_arrival_bound(n), from_arrival_bound_until(h), ArrivalCurvePrefix::from_arrival_bound_until(h), Curve::from(&prefix), From<Periodic|Sporadic>: derived >= source for every delta up to 4x the covered prefix plus 6 source scales, and == source up to the covered prefix (largest recorded minimum distance resp. horizon); (c) delta_min_iter over every arrival spec: starts (0,0),(1,0), then n consecutive from 2 with eta(x+1) >= n and eta(x) < n, ends only if no more events fit; nonzero_delta_min_iter is the same sequence without the two default items. Non-trivial: trace with a burst or >= 2 distinct gaps and span beyond the prefix; derived checked beyond the covered prefix for a jittered/bursty/nested source; >= 3 dual pairs. Known finding matched by signature: a trace with more than prefix_jobs simultaneous events (inferred prefix all zero) divides by zero.".into(),
        assumptions: vec![
            "traces are non-decreasing with >= 2 events, prefix_jobs >= 1".into(),
            "sources of derived curves are sub-additive (a plain non-extrapolating Curve or an ArrivalCurvePrefix is not used as a source: its repetition tail is an over-approximation nobody claims to be sub-additive, and dominance of a delta-min representation presupposes it)".into(),
        ],
        subchecks: vec![
            subcheck("trace", (6000, 150_000), trace_strategy, check_trace),
            subcheck("derived", (1500, 60_000), derived_strategy, check_derived),
            subcheck("delta-min-duality", (3000, 100_000), dmin_case_strategy, check_dmin),
        ],
        extra: None,
    }
}

//! C15 — the approximated Poisson bound is the (1 - epsilon) quantile.

use proptest::prelude::*;
use response_time_analysis::arrival::{ApproximatedPoisson, ArrivalBound, Poisson};
use serde::{Deserialize, Serialize};

use crate::engine::*;
use crate::supply_ref::d;

#[derive(Clone, Debug, Serialize, Deserialize)]
pub struct Case {
    pub rate: f64,
    pub eps: f64,
    pub delta: u64,
    /// extra interval lengths for the monotonicity check
    pub more: Vec<u64>,
    /// job counts at which arrival_probability is compared with the pmf (offsets around the mean)
    pub ks: Vec<i64>,
}

fn strategy(tier: Tier) -> BoxedStrategy<Case> {
    let max_mean_e = tier.pick(3400i32, 3700i32); // 10^(x/1000): up to ~2500 / ~5000
    (
        prop_oneof![2 => -3000i32..max_mean_e, 3 => 2000i32..max_mean_e],
        1u64..=10_000,
        prop_oneof![4 => 300u32..6000, 1 => 6000u32..10_000],
        proptest::collection::vec(1u64..=10_000, 0..3),
        proptest::collection::vec(-80i64..=80, 1..6),
    )
        .prop_map(|(mean_e, delta, eps_e, more, ks)| {
            let mean = 10f64.powf(mean_e as f64 / 1000.0);
            let rate = mean / delta as f64;
            let eps = 10f64.powf(-(eps_e as f64) / 1000.0);
            Case { rate, eps, delta, more, ks }
        })
        .boxed()
}

/// ln(k!) — exact summation for small k, Stirling series otherwise (abs. error < 1e-12)
fn ln_factorial(k: u64) -> f64 {
    if k < 30 {
        let mut s = 0.0f64;
        for i in 2..=k {
            s += (i as f64).ln();
        }
        return s;
    }
    let x = k as f64;
    let x2 = x * x;
    x * x.ln() - x + 0.5 * (2.0 * std::f64::consts::PI * x).ln() + 1.0 / (12.0 * x) - 1.0 / (360.0 * x * x2)
        + 1.0 / (1260.0 * x2 * x2 * x)
}

/// Reference Poisson pmf table around the mode, by ratio recurrence from the mode.
struct RefPoisson {
    lo: u64,
    p: Vec<f64>, // p[i] = pmf(lo + i)
}

impl RefPoisson {
    fn new(mean: f64) -> RefPoisson {
        let mode = mean.floor() as u64;
        let width = (45.0 * mean.sqrt() + 80.0) as u64;
        let lo = mode.saturating_sub(width);
        let hi = mode + width;
        let mut p = vec![0.0f64; (hi - lo + 1) as usize];
        let ln_mode = -mean + mode as f64 * mean.ln() - ln_factorial(mode);
        let pm = ln_mode.exp();
        p[(mode - lo) as usize] = pm;
        let mut cur = pm;
        for k in mode + 1..=hi {
            cur *= mean / k as f64;
            p[(k - lo) as usize] = cur;
        }
        cur = pm;
        for k in (lo..mode).rev() {
            cur *= (k + 1) as f64 / mean;
            p[(k - lo) as usize] = cur;
        }
        RefPoisson { lo, p }
    }
    fn pmf(&self, k: u64) -> f64 {
        if k < self.lo || k >= self.lo + self.p.len() as u64 {
            0.0
        } else {
            self.p[(k - self.lo) as usize]
        }
    }
    /// smallest n with P[N > n] <= thr (tail summed from the far right: accurate for small thr)
    fn quantile_by_tail(&self, thr: f64) -> u64 {
        // tail(n) = sum_{k>n} pmf(k); walk n downwards from the top
        let mut tail = 0.0f64;
        let mut n = self.lo + self.p.len() as u64 - 1;
        // invariant: tail = P[N > n] (up to the truncated far tail, < 1e-300)
        loop {
            // can we go one lower?  P[N > n-1] = tail + pmf(n)
            let t2 = tail + self.pmf(n);
            if t2 > thr {
                return n;
            }
            if n == 0 {
                return 0;
            }
            if n == self.lo {
                // everything below lo is negligible mass on the left; going lower only adds ~0
                return n.min(self.lo);
            }
            tail = t2;
            n -= 1;
        }
    }
}

fn check(c: &Case) -> CheckResult {
    let mut out = Outcome::default();
    let mean = c.rate * c.delta as f64;
    let ap = ApproximatedPoisson::new(c.rate, c.eps);
    // 0 at delta = 0
    let z = guard(|| ap.number_arrivals(d(0))).map_err(|e| format!("number_arrivals(0) panicked: {}", e))?;
    if z != 0 {
        return Err(format!("number_arrivals(0) = {}", z));
    }
    // terminates and is the quantile
    let budget = 60_000_000; // the pmf is re-evaluated from scratch for every n: ~n^2/2 steps, n <= ~5500
    let got = guard_with_budget(budget, || ap.number_arrivals(d(c.delta))).map_err(|e| {
        format!("number_arrivals(delta={}) with rate*delta = {:.3} did not return: {}", c.delta, mean, e)
    })?;
    let rp = RefPoisson::new(mean);
    // tolerance for float rounding in the crate's cumulative sum (grows with the number and size of the
    // terms of the log-space pmf); anything beyond it is a wrong quantile
    let tol = 1e-11 + mean * 1e-11;
    let n_lo = rp.quantile_by_tail(c.eps + tol);
    let n_hi = if c.eps - tol > 0.0 { rp.quantile_by_tail(c.eps - tol) } else { u64::MAX };
    if (got as u64) < n_lo || (got as u64) > n_hi {
        return Err(format!(
            "number_arrivals = {} for mean {:.4}, epsilon {:.3e}; the smallest n with P[N<=n] >= 1-epsilon is {} (tolerance band [{}, {}])",
            got,
            mean,
            c.eps,
            rp.quantile_by_tail(c.eps),
            n_lo,
            n_hi
        ));
    }
    // monotone in delta
    let mut pts: Vec<(u64, usize)> = vec![(c.delta, got)];
    for &dl in &c.more {
        if c.rate * dl as f64 <= 4000.0 {
            let g = guard_with_budget(budget, || ap.number_arrivals(d(dl))).map_err(|e| format!("number_arrivals({}) did not return: {}", dl, e))?;
            pts.push((dl, g));
        }
    }
    pts.sort();
    for w in pts.windows(2) {
        if w[1].1 < w[0].1 {
            return Err(format!("not monotone: number_arrivals({}) = {} > number_arrivals({}) = {}", w[0].0, w[0].1, w[1].0, w[1].1));
        }
    }
    // arrival_probability is the pmf
    let po = Poisson { rate: c.rate };
    for &off in &c.ks {
        // offsets scaled by the standard deviation
        let k = (mean + off as f64 * (mean.sqrt() + 1.0) / 10.0).round();
        if k < 0.0 {
            continue;
        }
        let k = k as u64;
        let exp = rp.pmf(k);
        let gotp = guard(|| po.arrival_probability(d(c.delta), k as usize)).map_err(|e| format!("arrival_probability panicked: {}", e))?;
        if exp < 1e-280 {
            continue;
        }
        let rel = ((gotp - exp) / exp).abs();
        if !(rel <= 1e-6) {
            return Err(format!(
                "arrival_probability(delta={}, k={}) = {:e} but the Poisson pmf for mean {:.4} is {:e}",
                c.delta, k, gotp, mean, exp
            ));
        }
        out.inner += 1;
    }
    out.nontrivial = mean >= 100.0;
    out.label_if(mean >= 100.0, "mean>=100");
    out.label_if(mean >= 745.0, "mean>=745");
    out.label_if(mean < 1.0, "mean<1");
    out.label_if(c.eps < 1e-4, "eps<1e-4");
    Ok(out)
}

/// Several approximations of ONE Poisson process (same rate, different epsilon) queried in a generated
/// order in one thread: every answer must be the quantile for the epsilon of the instance that was asked,
/// whatever was asked before (of this or of another instance).
#[derive(Clone, Debug, Serialize, Deserialize)]
pub struct InstCase {
    pub rate: f64,
    pub eps: Vec<f64>,
    pub deltas: Vec<u64>,
    /// (index into eps, index into deltas)
    pub queries: Vec<(usize, usize)>,
}

fn inst_strategy(_tier: Tier) -> BoxedStrategy<InstCase> {
    (
        -2000i32..2300, // mean of the first interval: 10^-2 .. ~200
        1u64..=2000,
        proptest::collection::vec(300u32..9000, 2..5),
        proptest::collection::vec(1u64..=2000, 0..3),
        proptest::collection::vec((0usize..64, 0usize..64), 2..10),
    )
        .prop_map(|(mean_e, delta, eps_e, more, q)| {
            let mean = 10f64.powf(mean_e as f64 / 1000.0);
            let rate = mean / delta as f64;
            let eps: Vec<f64> = eps_e.iter().map(|e| 10f64.powf(-(*e as f64) / 1000.0)).collect();
            let mut deltas = vec![delta];
            deltas.extend(more.into_iter().filter(|dl| rate * (*dl as f64) <= 400.0));
            let queries = q.into_iter().map(|(i, j)| ((i * eps.len()) >> 6, (j * deltas.len()) >> 6)).collect();
            InstCase { rate, eps, deltas, queries }
        })
        .boxed()
}

fn inst_check(c: &InstCase) -> CheckResult {
    // every case runs in a thread of its own: whatever per-thread state the crate might keep starts
    // empty, so a failing case (and its shrunk form) reproduces from the replay file alone
    std::thread::scope(|s| s.spawn(|| inst_check_inner(c)).join()).unwrap_or_else(|_| Err("the checking thread panicked".into()))
}

fn inst_check_inner(c: &InstCase) -> CheckResult {
    let mut out = Outcome::default();
    let aps: Vec<ApproximatedPoisson> = c.eps.iter().map(|e| ApproximatedPoisson::new(c.rate, *e)).collect();
    let mut distinct_answers = std::collections::BTreeSet::new();
    let mut seen = std::collections::BTreeSet::new();
    let mut revisits = 0;
    for (qi, &(i, j)) in c.queries.iter().enumerate() {
        let (eps, delta) = (c.eps[i], c.deltas[j]);
        let mean = c.rate * delta as f64;
        let got = guard_with_budget(60_000_000, || aps[i].number_arrivals(d(delta)))
            .map_err(|e| format!("query #{}: number_arrivals({}) did not return: {}", qi, delta, e))? as u64;
        let rp = RefPoisson::new(mean);
        let tol = 1e-11 + mean * 1e-11;
        let n_lo = rp.quantile_by_tail(eps + tol);
        let n_hi = if eps - tol > 0.0 { rp.quantile_by_tail(eps - tol) } else { u64::MAX };
        if got < n_lo || got > n_hi {
            return Err(format!(
                "query #{} of {:?} (rate {:e}): the instance with epsilon {:.3e} answers number_arrivals({}) = {}; the (1-epsilon) quantile for mean {:.4} is {} (tolerance band [{}, {}])",
                qi, c.queries, c.rate, eps, delta, got, mean, rp.quantile_by_tail(eps), n_lo, n_hi
            ));
        }
        if seen.iter().any(|&(i2, j2)| j2 == j && i2 != i) {
            revisits += 1;
        }
        seen.insert((i, j));
        distinct_answers.insert((j, got));
        out.inner += 1;
    }
    // non-trivial: the same interval was asked of two instances and the right answers differ
    let differing = c.deltas.iter().enumerate().any(|(j, _)| distinct_answers.iter().filter(|(j2, _)| *j2 == j).count() >= 2);
    out.nontrivial = revisits > 0 && differing;
    out.label_if(revisits > 0, "same-delta-other-epsilon");
    out.label_if(differing, "answers-differ");
    Ok(out)
}

pub fn def() -> PropertyDef {
    PropertyDef {
        id: "C15",
        rule: "generated: interval length 1..10^4, mean rate*delta log-uniform in [10^-3, ~2500 (quick) / ~5000 (thorough)] (so both large rates and large intervals occur), epsilon log-uniform in [10^-10, 0.5]; oracle: independent evaluation of the Poisson pmf by ratio recurrence from the mode (ln k! by Stirling series), upper tail summed from the far right; the returned n must lie in the band of quantiles for 1-epsilon -/+ (1e-11 + mean*1e-11) (stated tolerance so that float rounding at a boundary cannot alarm); 0 at delta=0; monotone over additional generated interval lengths; arrival_probability within relative 1e-6 of the pmf at generated k around the mean (skipped below 1e-280); termination decided by a step budget (6*10^7 loop iterations; the legitimate cost is ~n^2/2 <= 1.5*10^7). Non-trivial: mean >= 100. Sub-check instances: 2-4 approximations of one process (same rate, different epsilon) are queried for 1-3 interval lengths in a generated order of 2-9 queries inside one thread (a fresh thread per case, so that a case reproduces on its own); every answer must lie in the quantile band of the epsilon of the instance asked, so no state may leak between instances or queries (non-trivial: one interval asked of two instances whose correct answers differ). Distinct by case JSON.".into(),
        assumptions: vec!["rate > 0, 0 < epsilon < 1, float comparisons with the stated tolerances".into()],
        subchecks: vec![subcheck("quantile", (400, 12_000), strategy, check), subcheck("instances", (600, 8_000), inst_strategy, inst_check)],
        extra: None,
    }
}

//! C10 — arrival models never undercount the event processes they describe.

use proptest::prelude::*;
use response_time_analysis::arrival::ArrivalBound;
use serde::{Deserialize, Serialize};

use crate::arr::*;
use crate::engine::*;
use crate::supply_ref::d;

#[derive(Clone, Debug, Serialize, Deserialize)]
pub struct Case {
    pub spec: ArrSpec,
    /// (t0, choices) per generated sequence; the dense sequence is always added
    pub seqs: Vec<(u64, Vec<u16>)>,
    pub j1: u64,
    pub j2: u64,
}

fn strategy(tier: Tier) -> BoxedStrategy<Case> {
    let g = ArrGen {
        tmax: tier.pick(30, 60),
        never: true,
        plateau_end: true,
        plain_curves: true,
        derived: false,
        acp: false,
        loose: true,
        poisson: false,
        depth: 3,
    };
    (
        arr_strategy(g),
        proptest::collection::vec((0u64..20, choices_strategy()), 1..5),
        0u64..40,
        0u64..40,
    )
        .prop_map(|(spec, seqs, j1, j2)| Case { spec, seqs, j1, j2 })
        .boxed()
}

pub fn eta_table(ab: &Ab, upto: u64) -> Result<Vec<usize>, String> {
    guard(|| (0..=upto).map(|x| ab.number_arrivals(d(x))).collect::<Vec<_>>())
        .map_err(|e| format!("number_arrivals panicked: {}", e))
}

fn check(c: &Case) -> CheckResult {
    let mut out = Outcome::default();
    let ab = guard(|| c.spec.build()).map_err(|e| format!("constructing the model panicked: {}", e))?;
    let scale = c.spec.scale();
    let horizon = (4 * scale + 60).min(1200);
    let eta = eta_table(&ab, horizon)?;
    if eta[0] != 0 {
        return Err(format!("number_arrivals(0) = {}", eta[0]));
    }
    for x in 1..eta.len() {
        if eta[x] < eta[x - 1] {
            return Err(format!("number_arrivals decreases at delta={}: {} -> {}", x, eta[x - 1], eta[x]));
        }
    }
    // admissible sequences never exceed the bound
    let mut seqs: Vec<(u64, Vec<u16>)> = vec![(0, vec![])];
    seqs.extend(c.seqs.iter().cloned());
    let mut max_in_window = 0;
    for (t0, chv) in &seqs {
        let mut ch = Choices::new(chv);
        let mut ev = c.spec.events(*t0 as i64, *t0 as i64 + horizon as i64, &mut ch);
        ev.truncate(400);
        let mw = max_window_table(&ev, horizon);
        out.inner += 1;
        for delta in 0..=horizon as usize {
            if mw[delta] > eta[delta] {
                return Err(format!(
                    "an admissible event sequence has {} events in a window of length {} but number_arrivals = {} (sequence starts {:?}, t0={}, choices={:?})",
                    mw[delta],
                    delta,
                    eta[delta],
                    &ev[..ev.len().min(12)],
                    t0,
                    chv
                ));
            }
        }
        max_in_window = max_in_window.max(*mw.last().unwrap());
        // Periodic / Sporadic: attained by the densest sequence
        if chv.is_empty() {
            if let ArrSpec::Periodic { .. } | ArrSpec::Sporadic { .. } = c.spec {
                if ev.len() < 400 {
                    for delta in 0..=horizon as usize {
                        if mw[delta] != eta[delta] {
                            return Err(format!(
                                "densest sequence has {} events in a window of length {} but number_arrivals = {} (not attained)",
                                mw[delta], delta, eta[delta]
                            ));
                        }
                    }
                    out.label("attained-checked");
                }
            }
        }
    }
    // sub-additivity of Periodic / Sporadic
    if let ArrSpec::Periodic { .. } | ArrSpec::Sporadic { .. } = c.spec {
        let h = (horizon / 2) as usize;
        for a in (0..=h).step_by(1 + h / 40) {
            for b in (0..=h).step_by(1 + h / 37) {
                if eta[a + b] > eta[a] + eta[b] {
                    return Err(format!("not sub-additive: eta({})={} > eta({})+eta({})={}", a + b, eta[a + b], a, b, eta[a] + eta[b]));
                }
            }
        }
    }
    // jitter composition: adding j1 then j2 is the same as adding j1+j2
    let (x1, x2) = guard(|| {
        (
            ab.clone_with_jitter(d(c.j1)).clone_with_jitter(d(c.j2)),
            ab.clone_with_jitter(d(c.j1 + c.j2)),
        )
    })
    .map_err(|e| format!("clone_with_jitter panicked: {}", e))?;
    let hj = horizon.min(400);
    let (e1, e2) = guard(|| {
        (
            (0..=hj).map(|x| x1.number_arrivals(d(x))).collect::<Vec<_>>(),
            (0..=hj).map(|x| x2.number_arrivals(d(x))).collect::<Vec<_>>(),
        )
    })
    .map_err(|e| format!("number_arrivals of a jittered clone panicked: {}", e))?;
    for x in 0..=hj as usize {
        if e1[x] != e2[x] {
            return Err(format!(
                "jitter {} then {} gives {} arrivals at delta={}, jitter {} gives {}",
                c.j1,
                c.j2,
                e1[x],
                x,
                c.j1 + c.j2,
                e2[x]
            ));
        }
    }
    // the twice-jittered model bounds sequences delayed twice
    {
        let spec2 = ArrSpec::Jittered { inner: ArrSpec::Jittered { inner: c.spec.clone().boxed(), j: c.j1 }.boxed(), j: c.j2 };
        for (t0, chv) in &seqs {
            let mut ch = Choices::new(chv);
            let mut ev = spec2.events(*t0 as i64, *t0 as i64 + hj as i64, &mut ch);
            ev.truncate(300);
            let mw = max_window_table(&ev, hj);
            out.inner += 1;
            for delta in 0..=hj as usize {
                if mw[delta] > e1[delta] {
                    return Err(format!(
                        "a sequence delayed by <= {} and then <= {} has {} events in a window of length {} but the twice-jittered model says {}",
                        c.j1, c.j2, mw[delta], delta, e1[delta]
                    ));
                }
            }
        }
    }
    out.nontrivial = max_in_window >= 3 && (c.spec.has_jitter() || c.spec.has_burst() || c.spec.depth() >= 1);
    out.label_if(c.spec.has_jitter(), "jitter");
    out.label_if(c.spec.has_burst(), "burst");
    out.label_if(c.spec.is_composite(), "composite");
    out.label_if(c.spec.depth() >= 2, "depth>=2");
    out.label_if(c.spec.never_arrives(), "never");
    out.label_if(matches!(c.spec, ArrSpec::Periodic { .. } | ArrSpec::Sporadic { .. }), "top-level-periodic/sporadic");
    Ok(out)
}

pub fn decode(d: &mut crate::dec::Dec) -> Case {
    use crate::dec::*;
    let g = DecArr { tmax: 30, never: true, derived: false, acp: false };
    let spec = dec_arr(d, g, 3);
    let seqs = d.vec(1, 4, |d| (d.range(0, 19), d.vec(0, 16, |d| ((d.byte() as u16) << 8) | d.byte() as u16)));
    Case { spec, seqs, j1: d.range(0, 39), j2: d.range(0, 39) }
}

// --- scale invariance (behaviour at large values) ----------------------------------------

#[derive(Clone, Debug, Serialize, Deserialize)]
pub struct ScaleCase {
    pub spec: ArrSpec,
    pub factor: u64,
    pub deltas: Vec<u64>,
}

fn scale_strategy(tier: Tier) -> BoxedStrategy<ScaleCase> {
    let g = ArrGen { tmax: tier.pick(30, 60), never: true, plateau_end: true, plain_curves: true, derived: true, acp: true, loose: true, poisson: false, depth: 2 };
    (
        arr_strategy(g),
        proptest::sample::select(vec![1_000u64, 65_537, 10_000_000, 4_294_967_311]),
        proptest::collection::vec(0u64..400, 1..12),
    )
        .prop_map(|(spec, factor, deltas)| ScaleCase { spec, factor, deltas })
        .boxed()
}

/// Multiplying every time parameter of a model by s must leave the bound unchanged at s-multiples:
/// eta_s(s * delta) = eta(delta), and the k-th step moves from x to s * (x - 1) + 1.
fn check_scale(c: &ScaleCase) -> CheckResult {
    let mut out = Outcome::default();
    let mut big = c.spec.clone();
    crate::ros::stretch(&mut big, c.factor);
    let (a, b) = match guard(|| (c.spec.build(), big.build())) {
        Ok(x) => x,
        Err(_) => {
            out.label("construction-failed(skipped)");
            return Ok(out);
        }
    };
    let direct_acp = c.spec.exposes_direct_acp();
    for &x in &c.deltas {
        let r = guard(|| (a.number_arrivals(d(x)), b.number_arrivals(d(x * c.factor))));
        let (small, large) = match r {
            Ok(v) => v,
            Err(e) => return Err(format!("number_arrivals panicked: {} (delta {} / {})", e, x, x * c.factor)),
        };
        if small != large {
            return Err(format!(
                "all time parameters multiplied by {}: number_arrivals({}) = {} but the unscaled model gives number_arrivals({}) = {}",
                c.factor,
                x * c.factor,
                large,
                x,
                small
            ));
        }
        out.inner += 1;
    }
    let k = 12;
    let r = guard(|| {
        (
            a.steps_iter().take(k).map(crate::supply_ref::du).collect::<Vec<u64>>(),
            b.steps_iter().take(k).map(crate::supply_ref::du).collect::<Vec<u64>>(),
        )
    });
    let (ss, sl) = r.map_err(|e| format!("steps_iter panicked: {}", e))?;
    let expect: Vec<u64> = ss.iter().map(|x| if *x == 0 { 0 } else { (x - 1) * c.factor + 1 }).collect();
    if sl != expect && !(direct_acp && ss.first() == Some(&0)) {
        return Err(format!("all time parameters multiplied by {}: steps {:?} but the unscaled steps {:?} map to {:?}", c.factor, &sl[..sl.len().min(6)], &ss[..ss.len().min(6)], &expect[..expect.len().min(6)]));
    }
    out.nontrivial = c.factor >= 10_000_000 && (c.spec.has_jitter() || c.spec.has_burst() || c.spec.depth() >= 1);
    out.label_if(c.factor > u32::MAX as u64, "factor>2^32");
    Ok(out)
}

// --- recorded traces: the inferred curve bounds the trace it was built from --------------

fn check_recorded_trace(c: &crate::props::c12::TraceCase) -> CheckResult {
    use response_time_analysis::arrival::{Curve, ExtrapolatingCurve};
    use response_time_analysis::time::Offset;
    let mut out = Outcome::default();
    // more than prefix_jobs simultaneous events: the inferred prefix has no positive distance
    // (known finding C12/from-trace-burst-larger-than-prefix) -- excluded here by construction
    let k = c.prefix_jobs.min(c.trace.len() - 1);
    if k == 0 || (0..c.trace.len() - k).any(|i| c.trace[i + k] == c.trace[i]) {
        out.label("excluded(burst-larger-than-prefix)");
        return Ok(out);
    }
    let span = c.trace.last().unwrap() - c.trace[0];
    let upto = span + 30;
    let eta = guard(|| {
        let curve = Curve::from_trace(c.trace.iter().map(|x| Offset::from(*x)), c.prefix_jobs);
        let ab: Ab = if c.extrapolating { std::rc::Rc::new(ExtrapolatingCurve::new(curve)) } else { std::rc::Rc::new(curve) };
        (0..=upto).map(|x| ab.number_arrivals(d(x))).collect::<Vec<usize>>()
    })
    .map_err(|e| format!("from_trace / number_arrivals panicked: {}", e))?;
    if eta[0] != 0 {
        return Err(format!("number_arrivals(0) = {}", eta[0]));
    }
    for x in 1..eta.len() {
        if eta[x] < eta[x - 1] {
            return Err(format!("number_arrivals decreases at delta={}: {} -> {}", x, eta[x - 1], eta[x]));
        }
    }
    let ev: Vec<i64> = c.trace.iter().map(|x| *x as i64).collect();
    let mw = max_window_table(&ev, upto);
    for delta in 0..=upto as usize {
        if mw[delta] > eta[delta] {
            return Err(format!(
                "the recorded trace has {} events in a window of length {} but the curve inferred from it says {}",
                mw[delta], delta, eta[delta]
            ));
        }
    }
    out.inner = upto;
    let gaps: std::collections::BTreeSet<u64> = c.trace.windows(2).map(|w| w[1] - w[0]).collect();
    out.nontrivial = gaps.len() >= 2 && c.trace.len() > c.prefix_jobs + 1;
    out.label_if(c.trace.windows(2).any(|w| w[0] == w[1]), "simultaneous-events");
    out.label_if(c.extrapolating, "extrapolating");
    Ok(out)
}

// --- histories: queries interleaved with eager extrapolation of one Curve object ----------

#[derive(Clone, Debug, Serialize, Deserialize)]
pub enum HOp {
    Query(u64),
    Horizon(u64),
    Steps(usize),
}

#[derive(Clone, Debug, Serialize, Deserialize)]
pub struct HistCase {
    pub dmin: Vec<u64>,
    pub ops: Vec<HOp>,
    pub seqs: Vec<Vec<u16>>,
}

fn hist_strategy(tier: Tier) -> BoxedStrategy<HistCase> {
    let tmax = tier.pick(25, 50);
    (
        prop_oneof![3 => dmin_strategy(7, tmax, true), 1 => dmin_loose_strategy(6, tmax)],
        proptest::collection::vec(
            prop_oneof![
                3 => (0u64..300).prop_map(HOp::Query),
                2 => (0u64..400).prop_map(HOp::Horizon),
                3 => (0usize..24).prop_map(HOp::Steps),
            ],
            1..6,
        ),
        proptest::collection::vec(choices_strategy(), 1..3),
    )
        .prop_map(|(dmin, ops, seqs)| HistCase { dmin, ops, seqs })
        .boxed()
}

/// A Curve object that is queried and eagerly extended in any order keeps bounding every sequence
/// that respects its original delta-min prefix (the extension only adds implied distances).
fn check_hist(c: &HistCase) -> CheckResult {
    use response_time_analysis::arrival::Curve;
    let mut out = Outcome::default();
    let l0 = *c.dmin.last().unwrap();
    let big = (8 * l0 + 60).min(2000);
    let mut cur = guard(|| Curve::new(c.dmin.iter().map(|x| d(*x)).collect())).map_err(|e| format!("Curve::new panicked: {}", e))?;
    let mut all: Vec<Vec<u16>> = vec![vec![]];
    all.extend(c.seqs.iter().cloned());
    let tables: Vec<Vec<usize>> = all
        .iter()
        .map(|chv| {
            let mut ch = Choices::new(chv);
            let ev = curve_events(&c.dmin, 0, big as i64, &mut ch, 350);
            max_window_table(&ev, big)
        })
        .collect();
    let mut extended = false;
    let mut queried_before_extension = false;
    for (i, op) in c.ops.iter().enumerate() {
        match op {
            HOp::Query(x) => {
                guard(|| cur.number_arrivals(d(*x))).map_err(|e| format!("number_arrivals({}) panicked: {}", x, e))?;
                if !extended {
                    queried_before_extension = true;
                }
                continue;
            }
            HOp::Horizon(h) => guard(|| cur.extrapolate(d(*h))).map_err(|e| format!("extrapolate({}) panicked: {}", h, e))?,
            HOp::Steps(n) => guard(|| cur.extrapolate_steps(*n)).map_err(|e| format!("extrapolate_steps({}) panicked: {}", n, e))?,
        }
        extended = true;
        let eta: Vec<usize> = guard(|| (0..=big).map(|x| cur.number_arrivals(d(x))).collect::<Vec<_>>())
            .map_err(|e| format!("number_arrivals after {:?} panicked: {}", op, e))?;
        if eta[0] != 0 {
            return Err(format!("after {:?}: number_arrivals(0) = {}", &c.ops[..=i], eta[0]));
        }
        for x in 1..eta.len() {
            if eta[x] < eta[x - 1] {
                return Err(format!("after {:?}: number_arrivals decreases at delta={}: {} -> {}", &c.ops[..=i], x, eta[x - 1], eta[x]));
            }
        }
        for mw in &tables {
            out.inner += 1;
            for x in 0..=big as usize {
                if mw[x] > eta[x] {
                    return Err(format!(
                        "after {:?} on the prefix {:?}: a sequence respecting the prefix has {} events in a window of length {} but number_arrivals = {}",
                        &c.ops[..=i],
                        c.dmin,
                        mw[x],
                        x,
                        eta[x]
                    ));
                }
            }
        }
    }
    out.nontrivial = extended && c.dmin.len() >= 2 && tables[0][big as usize] >= 3;
    out.label_if(queried_before_extension, "query-before-extension");
    out.label_if(c.ops.iter().filter(|o| !matches!(o, HOp::Query(_))).count() >= 2, "extended-twice");
    Ok(out)
}

pub fn decode_trace(d: &mut crate::dec::Dec) -> crate::props::c12::TraceCase {
    let gaps = d.vec(1, 23, |d| match d.pick(5) {
        0 => 0,
        1 | 2 => d.range(1, 3),
        _ => d.range(1, 40),
    });
    let mut t = d.range(0, 49);
    let mut trace = vec![t];
    for g in gaps {
        t += g;
        trace.push(t);
    }
    crate::props::c12::TraceCase { trace, prefix_jobs: d.range(1, 8) as usize, extrapolating: d.flag() }
}

pub fn decode_hist(d: &mut crate::dec::Dec) -> HistCase {
    use crate::dec::*;
    let sa = d.byte() % 4 != 0;
    let dmin = dec_dmin(d, 25, sa);
    let ops = d.vec(1, 5, |d| match d.pick(8) {
        0 | 1 | 2 => HOp::Query(d.range(0, 299)),
        3 | 4 => HOp::Horizon(d.range(0, 399)),
        _ => HOp::Steps(d.pick(24)),
    });
    let seqs = d.vec(1, 2, |d| d.vec(0, 16, |d| ((d.byte() as u16) << 8) | d.byte() as u16));
    HistCase { dmin, ops, seqs }
}

/// exhaustive stage over a tiny parameter grid (same models as C11's exhaustive stage)
fn exhaustive(tier: Tier, _seed: u64) -> ExtraResult {
    let mut r = ExtraResult { exhaustive: true, replay_subcheck: "sequences", ..Default::default() };
    let (tmax, jmax, emax) = tier.pick((8u64, 20u64, 4u64), (12u64, 40u64, 6u64));
    let mut specs: Vec<ArrSpec> = vec![];
    for t in 1..=tmax {
        specs.push(ArrSpec::Periodic { t });
        for j in 0..=jmax {
            specs.push(ArrSpec::Sporadic { t, j });
        }
    }
    for a in 0..=emax {
        for b in a..=emax {
            if b == 0 {
                continue;
            }
            for e in [false, true] {
                specs.push(ArrSpec::Curve { dmin: vec![a, b], extrapolating: e });
            }
            for c in b..=emax {
                specs.push(ArrSpec::Curve { dmin: vec![a, b, c], extrapolating: true });
            }
        }
    }
    let perturbed: Vec<u16> = vec![0, 0, 7, 0, 5, 0, 0, 6, 1, 0, 2, 0];
    for sp in specs {
        for (j1, j2) in [(0u64, 0u64), (3, 2)] {
            let c = Case { spec: sp.clone(), seqs: vec![(0, vec![]), (1, perturbed.clone())], j1, j2 };
            r.evaluations += 1;
            match check(&c) {
                Ok(o) => {
                    if o.nontrivial {
                        r.nontrivial += 1;
                    }
                }
                Err(msg) => {
                    r.failure = Some((serde_json::to_value(&c).unwrap(), msg));
                    return r;
                }
            }
        }
    }
    // every admissible sequence of up to 5 events of tiny sporadic tasks (all gap slacks 0..2, all
    // per-event jitters 0..=J) and of tiny delta-min curves (all slacks 0..2): window counts vs. the bound
    let (st, sj) = tier.pick((3u64, 3u64), (4u64, 5u64));
    let mut nseq = 0u64;
    for t in 1..=st {
        for j in 0..=sj {
            let ab = ArrSpec::Sporadic { t, j }.build();
            let eta: Vec<usize> = (0..=40u64).map(|x| ab.number_arrivals(d(x))).collect();
            let nev = 5usize;
            // arrivals: a_0 = 0, a_k = a_{k-1} + t + slack_k; releases r_k = a_k + jit_k
            let mut idx = vec![0u64; 2 * nev - 1]; // nev jitters, nev-1 slacks
            loop {
                let mut a = 0u64;
                let mut rel: Vec<i64> = vec![];
                for k in 0..nev {
                    if k > 0 {
                        a += t + idx[nev + k - 1];
                    }
                    rel.push((a + idx[k]) as i64);
                }
                rel.sort();
                let mw = max_window_table(&rel, 40);
                nseq += 1;
                for delta in 0..=40usize {
                    if mw[delta] > eta[delta] {
                        let c = Case { spec: ArrSpec::Sporadic { t, j }, seqs: vec![], j1: 0, j2: 0 };
                        r.failure = Some((
                            serde_json::to_value(&c).unwrap(),
                            format!("Sporadic(T={}, J={}): the admissible release sequence {:?} has {} events in a window of length {} but number_arrivals = {}", t, j, rel, mw[delta], delta, eta[delta]),
                        ));
                        return r;
                    }
                }
                // next combination
                let mut k = 0;
                loop {
                    if k == idx.len() {
                        break;
                    }
                    let max = if k < nev { j } else { 2 };
                    if idx[k] < max {
                        idx[k] += 1;
                        break;
                    }
                    idx[k] = 0;
                    k += 1;
                }
                if k == idx.len() {
                    break;
                }
            }
        }
    }
    r.evaluations += nseq;
    r.note = format!("every Periodic(T<={t}), Sporadic(T<={t}, J<={j}) and delta-min vector of length 2-3 with entries <= {e}: densest and one perturbed sequence, jitter composition (0,0) and (3,2); plus ALL {n} release sequences of 5 events (gap slacks 0..2, per-event jitter 0..=J) of every Sporadic(T<={st}, J<={sj})", t = tmax, j = jmax, e = emax, n = nseq, st = st, sj = sj);
    r
}

pub fn def() -> PropertyDef {
    PropertyDef {
        id: "C10",
        rule: "generated: nested arrival specs (Periodic, Sporadic with jitter up to 4T, plain and extrapolating delta-min curves incl. bursts, plateaus and non-super-additive prefixes, Never, clone_with_jitter, Propagated, sum_of, Vec, boxed slice; depth <= 3) and, per case, the densest sequence plus 1-4 generated admissible event sequences (slack and per-event jitter decisions are a generated vector); oracle: max number of events in any window of every length delta <= horizon (window counting over the sequence, independent of number_arrivals) <= number_arrivals(delta); number_arrivals(0)=0 and monotone; Periodic/Sporadic attained by the densest sequence and sub-additive; jitter a then b == jitter a+b pointwise, and the twice-jittered model bounds twice-delayed sequences. Second sub-check (large values): every time parameter of a generated model (incl. derived curves and prefixes) multiplied by 10^3 / 65537 / 10^7 / 2^32+15: number_arrivals at s-multiples and the first 12 steps must be the images of the unscaled ones. Third sub-check (recorded-trace): Curve::from_trace(trace, n) (plain and extrapolating) of generated traces with bursts, short and long gaps: number_arrivals(0) = 0, monotone, and no window of the recorded trace itself holds more events than the curve says (traces with more than n simultaneous events are the known finding C12/from-trace-burst-larger-than-prefix and are excluded by construction and counted). Fourth sub-check (curve-history): one arrival::Curve object that is queried and eagerly extended (extrapolate, extrapolate_steps) in a generated order; after every extension number_arrivals(0) = 0, monotone, and the densest plus 1-2 generated sequences respecting the ORIGINAL delta-min prefix stay bounded. Non-trivial: some sequence has >= 3 events in a checked window and the model has jitter, a burst or nesting; distinct by case JSON.".into(),
        assumptions: vec![
            "delta-min prefixes are non-empty, non-decreasing and end with a positive distance (an all-zero prefix denotes an unbounded burst)".into(),
            "Periodic means exactly periodic releases with an arbitrary phase".into(),
        ],
        subchecks: vec![
            subcheck("sequences", (12_000, 200_000), strategy, check).with_decoder(decode, check),
            subcheck("scale-invariance", (4000, 100_000), scale_strategy, check_scale),
            subcheck("recorded-trace", (6000, 100_000), crate::props::c12::trace_strategy, check_recorded_trace).with_decoder(decode_trace, check_recorded_trace),
            subcheck("curve-history", (4000, 80_000), hist_strategy, check_hist).with_decoder(decode_hist, check_hist),
        ],
        extra: Some(Box::new(exhaustive)),
    }
}

//! C11 — steps_iter yields exactly the points where a bound increases.

use std::rc::Rc;

use proptest::prelude::*;
use response_time_analysis::demand::{self, RequestBound};
use serde::{Deserialize, Serialize};

use crate::arr::*;
use crate::cost::*;
use crate::engine::*;
use crate::supply_ref::{d, du, su};

pub const KNOWN_ACP_ZERO: &str = "C11/acp-steps-leading-zero";

#[derive(Clone, Debug, Serialize, Deserialize)]
pub struct ArrCase {
    pub spec: ArrSpec,
    pub horizon: u64,
}

pub fn full_gen(tmax: u64) -> ArrGen {
    ArrGen { tmax, never: true, plateau_end: true, plain_curves: true, derived: true, acp: true, loose: true, poisson: true, depth: 3 }
}

fn arr_case_strategy(tier: Tier) -> BoxedStrategy<ArrCase> {
    (arr_strategy(full_gen(tier.pick(30, 60))), 20u64..400)
        .prop_map(|(spec, horizon)| ArrCase { spec, horizon })
        .boxed()
}

/// compare a yielded step sequence with the brute-force increase points of `vals` (vals[delta])
pub fn compare_steps(got: &[u64], vals: &[u64], h: u64) -> Result<(), String> {
    let exp: Vec<u64> = (1..=h).filter(|x| vals[*x as usize] > vals[*x as usize - 1]).collect();
    if got == exp.as_slice() {
        return Ok(());
    }
    // first difference
    let mut i = 0;
    while i < got.len() && i < exp.len() && got[i] == exp[i] {
        i += 1;
    }
    Err(format!(
        "steps_iter up to {} yields {:?}... but the bound increases exactly at {:?}... (first difference at position {}: got {:?}, expected {:?})",
        h,
        &got[..got.len().min(10)],
        &exp[..exp.len().min(10)],
        i,
        got.get(i),
        exp.get(i)
    ))
}

/// pull steps <= h from an iterator (bounded number of pulls)
pub fn pull_steps(it: impl Iterator<Item = response_time_analysis::time::Duration>, h: u64) -> Vec<u64> {
    let mut v = vec![];
    for x in it.take(h as usize + 8) {
        let x = du(x);
        if x > h {
            break;
        }
        v.push(x);
    }
    v
}

fn check_arr(c: &ArrCase) -> CheckResult {
    let mut out = Outcome::default();
    let ab = match guard(|| c.spec.build()) {
        Ok(ab) => ab,
        // construction failures are C12 / C20 business (derived curves, prefixes); not a steps question
        Err(_) => {
            out.label("construction-failed(skipped)");
            return Ok(out);
        }
    };
    let h = c.horizon.max(2 * c.spec.scale().min(300));
    // steps of the freshly built object, before any other query (a cold cache must not matter)
    let cold = guard(|| pull_steps(ab.steps_iter(), h));
    let vals: Vec<u64> = match guard(|| (0..=h).map(|x| ab.number_arrivals(d(x)) as u64).collect::<Vec<_>>()) {
        Ok(v) => v,
        Err(_) => {
            out.label("number_arrivals-failed(skipped)");
            return Ok(out);
        }
    };
    let got = guard(|| pull_steps(ab.steps_iter(), h)).map_err(|e| format!("steps_iter panicked: {}", e))?;
    out.inner = 1;
    match &cold {
        Ok(cv) if *cv == got => {}
        Ok(cv) => {
            return Err(format!(
                "steps_iter of the freshly built object yields {:?}... but after number_arrivals queries it yields {:?}...",
                &cv[..cv.len().min(10)],
                &got[..got.len().min(10)]
            ))
        }
        Err(e) => return Err(format!("steps_iter of the freshly built object panicked: {}", e)),
    }
    if let Err(msg) = compare_steps(&got, &vals, h) {
        // known finding: a direct ArrivalCurvePrefix yields a leading 0 (pinned by the crate's own test)
        if c.spec.exposes_direct_acp() && got.first() == Some(&0) && compare_steps(&got[1..], &vals, h).is_ok() {
            return known_or_violation(KNOWN_ACP_ZERO, msg, out);
        }
        return Err(msg);
    }
    if got.windows(2).any(|w| w[0] >= w[1]) || got.first() == Some(&0) {
        return Err(format!("steps not strictly increasing / contain 0: {:?}", &got[..got.len().min(10)]));
    }
    // a second iterator obtained later yields the same sequence (iterators are independent)
    let again = guard(|| pull_steps(ab.steps_iter(), h)).map_err(|e| format!("steps_iter panicked: {}", e))?;
    if again != got {
        return Err("a second steps_iter yields a different sequence".into());
    }
    out.nontrivial = got.len() >= 3 && (c.spec.has_jitter() || c.spec.has_burst() || c.spec.depth() >= 1);
    out.label_if(c.spec.has_jitter(), "jitter");
    out.label_if(c.spec.has_burst(), "burst");
    out.label_if(c.spec.is_composite(), "composite");
    out.label_if(c.spec.never_arrives(), "never");
    out.label_if(got.is_empty(), "no-steps");
    out.label_if(c.spec.any(&|x| matches!(x, ArrSpec::CurveOfJobs { .. } | ArrSpec::CurveOfUntil { .. } | ArrSpec::CurveFromAcp { .. } | ArrSpec::CurveFromSporadic { .. })), "derived-curve");
    out.label_if(c.spec.any(&|x| matches!(x, ArrSpec::Curve { dmin, .. } if dmin.len() >= 2 && dmin[dmin.len()-1] == dmin[dmin.len()-2])), "plateau-end");
    Ok(out)
}

pub fn decode_arr_case(d: &mut crate::dec::Dec) -> ArrCase {
    use crate::dec::*;
    let g = DecArr { tmax: 30, never: true, derived: true, acp: true };
    ArrCase { spec: dec_arr(d, g, 3), horizon: d.range(20, 399) }
}

// --- request bounds ---------------------------------------------------------

#[derive(Clone, Debug, Serialize, Deserialize)]
pub enum Nest {
    Single,
    Aggregate,
    Slice,
    /// Aggregate of (Aggregate of the first half, boxed; rest boxed)
    Nested,
}

#[derive(Clone, Debug, Serialize, Deserialize)]
pub struct RbCase {
    pub comps: Vec<(ArrSpec, CostSpec)>,
    pub nest: Nest,
    pub horizon: u64,
}

pub fn no_acp_gen(tmax: u64) -> ArrGen {
    ArrGen { tmax, never: true, plateau_end: true, plain_curves: true, derived: true, acp: false, loose: false, poisson: false, depth: 2 }
}

fn rb_case_strategy(tier: Tier) -> BoxedStrategy<RbCase> {
    let g = ArrGen { acp: true, ..no_acp_gen(tier.pick(30, 60)) };
    (
        proptest::collection::vec(
            (
                arr_strategy(g),
                prop_oneof![
                    9 => cost_strategy(9, false),
                    1 => proptest::collection::vec(prop_oneof![1 => Just(0u64), 2 => 0u64..=9], 1..=4).prop_map(|costs| CostSpec::Multiframe { costs }),
                ],
            ),
            1..=4,
        ),
        prop_oneof![Just(Nest::Single), Just(Nest::Aggregate), Just(Nest::Slice), Just(Nest::Nested)],
        20u64..300,
    )
        .prop_map(|(comps, nest, horizon)| RbCase { comps, nest, horizon })
        .boxed()
}

pub type Rb = Rc<dyn RequestBound>;

pub fn build_rbf(a: &ArrSpec, c: &CostSpec) -> Rb {
    Rc::new(demand::RBF::new(a.build(), c.build()))
}

/// run `f` on the nested request bound
pub fn with_nested<T>(comps: &[(ArrSpec, CostSpec)], nest: &Nest, f: impl FnOnce(&dyn RequestBound) -> T) -> T {
    let rbfs: Vec<Rb> = comps.iter().map(|(a, c)| build_rbf(a, c)).collect();
    match nest {
        Nest::Single => f(&rbfs[0]),
        Nest::Aggregate => f(&demand::Aggregate::new(rbfs)),
        Nest::Slice => f(&demand::Slice::of(&rbfs[..])),
        Nest::Nested => {
            let k = rbfs.len() / 2;
            let first: Box<dyn RequestBound> = Box::new(demand::Aggregate::new(rbfs[..k].to_vec()));
            let mut items: Vec<Box<dyn RequestBound>> = vec![first];
            for r in &rbfs[k..] {
                items.push(Box::new(r.clone()));
            }
            f(&demand::Aggregate::new(items))
        }
    }
}

fn check_rb(c: &RbCase) -> CheckResult {
    let mut out = Outcome::default();
    let comps: Vec<(ArrSpec, CostSpec)> = match c.nest {
        Nest::Single => c.comps[..1].to_vec(),
        _ => c.comps.clone(),
    };
    let h = c.horizon;
    let r = guard(|| {
        with_nested(&comps, &c.nest, |rb| {
            let vals: Vec<u64> = (0..=h).map(|x| su(rb.service_needed(d(x)))).collect();
            (vals, ())
        })
    });
    let vals = match r {
        Ok((v, _)) => v,
        Err(_) => {
            out.label("construction-or-demand-failed(skipped)");
            return Ok(out);
        }
    };
    // precondition stated in the property: every job has a positive cost (checked on the built
    // cost models as black boxes; cost models are C14's business)
    for (a, cs) in &comps {
        let ok = guard(|| {
            let n = a.build().number_arrivals(d(h));
            let cm = cs.build();
            (1..=n).all(|k| cm.cost_of_jobs(k) > cm.cost_of_jobs(k - 1))
        });
        if ok != Ok(true) {
            // With zero-cost jobs the "iff" is not claimed, but the documented contract of
            // RequestBound::steps_iter ("yields every value of delta such that the demand increases")
            // still is: every increase point must be among the yielded steps.
            let got = guard(|| with_nested(&comps, &c.nest, |rb| pull_steps(rb.steps_iter(), h)))
                .map_err(|e| format!("steps_iter panicked: {}", e))?;
            let acp = comps.iter().any(|(a, _)| a.exposes_direct_acp());
            for x in 1..=h {
                if vals[x as usize] > vals[x as usize - 1] && !got.contains(&x) {
                    let msg = format!(
                        "the demand increases at delta={} ({} -> {}) but steps_iter up to {} yields {:?}... (zero-cost jobs present)",
                        x,
                        vals[x as usize - 1],
                        vals[x as usize],
                        h,
                        &got[..got.len().min(12)]
                    );
                    let _ = acp;
                    return Err(msg);
                }
            }
            out.label("zero-cost-job(superset check only)");
            return Ok(out);
        }
    }
    let got = guard(|| with_nested(&comps, &c.nest, |rb| pull_steps(rb.steps_iter(), h)))
        .map_err(|e| format!("steps_iter panicked: {}", e))?;
    out.inner = 1;
    let acp = comps.iter().any(|(a, _)| a.exposes_direct_acp());
    if let Err(msg) = compare_steps(&got, &vals, h) {
        if acp && got.first() == Some(&0) && compare_steps(&got[1..], &vals, h).is_ok() {
            return known_or_violation(KNOWN_ACP_ZERO, msg, out);
        }
        return Err(msg);
    }
    let offs = guard(|| {
        with_nested(&comps, &c.nest, |rb| {
            demand::step_offsets(rb)
                .take(h as usize + 8)
                .map(|o| du(o.since_time_zero()))
                .take_while(|o| *o < h)
                .collect::<Vec<u64>>()
        })
    })
    .map_err(|e| format!("step_offsets panicked: {}", e))?;
    let exp_offs: Vec<u64> = got.iter().map(|x| x - 1).filter(|o| *o < h).collect();
    if offs != exp_offs {
        return Err(format!("step_offsets {:?} != steps - 1 {:?}", &offs[..offs.len().min(8)], &exp_offs[..exp_offs.len().min(8)]));
    }
    out.nontrivial = got.len() >= 3 && comps.len() >= 2;
    out.label_if(comps.iter().any(|(_, c)| !c.is_scalar()), "non-scalar-cost");
    out.label_if(matches!(c.nest, Nest::Nested), "nested");
    Ok(out)
}

/// exhaustive stage: every Periodic / Sporadic / small delta-min curve with tiny parameters, plain,
/// jittered and summed with a periodic stream - steps vs. brute force up to a fixed horizon
/// One `arrival::Curve` object driven through a generated history of queries and in-place
/// extensions: after EVERY operation its steps must be exactly the increase points of its
/// (current) number_arrivals - whatever was iterated, queried or cloned before.
#[derive(Clone, Debug, Serialize, Deserialize)]
pub enum CurveOp {
    /// pull this many steps from a fresh iterator (and drop it)
    Steps(usize),
    Query(u64),
    Extrapolate(u64),
    ExtrapolateSteps(usize),
    /// continue with a clone of the object
    Clone,
    /// look at the steps of a jittered clone (the object itself stays)
    JitterProbe(u64),
}

#[derive(Clone, Debug, Serialize, Deserialize)]
pub struct CurveHistCase {
    pub dmin: Vec<u64>,
    pub ops: Vec<CurveOp>,
}

fn curve_hist_strategy(tier: Tier) -> BoxedStrategy<CurveHistCase> {
    let tmax = tier.pick(20, 40);
    let op = prop_oneof![
        3 => (1usize..12).prop_map(CurveOp::Steps),
        1 => (0u64..200).prop_map(CurveOp::Query),
        3 => (1u64..250).prop_map(CurveOp::Extrapolate),
        2 => (1usize..14).prop_map(CurveOp::ExtrapolateSteps),
        1 => Just(CurveOp::Clone),
        1 => (0u64..40).prop_map(CurveOp::JitterProbe),
    ];
    (dmin_strategy(6, tmax, true), proptest::collection::vec(op, 1..8))
        .prop_map(|(dmin, ops)| CurveHistCase { dmin, ops })
        .boxed()
}

fn steps_match(ab: &dyn response_time_analysis::arrival::ArrivalBound, h: u64, what: &str) -> Result<usize, String> {
    let vals: Vec<u64> = guard(|| (0..=h).map(|x| ab.number_arrivals(d(x)) as u64).collect::<Vec<_>>())
        .map_err(|e| format!("{}: number_arrivals panicked: {}", what, e))?;
    let got = guard(|| pull_steps(ab.steps_iter(), h)).map_err(|e| format!("{}: steps_iter panicked: {}", what, e))?;
    compare_steps(&got, &vals, h).map_err(|m| format!("{}: {}", what, m))?;
    Ok(got.len())
}

fn check_curve_hist(c: &CurveHistCase) -> CheckResult {
    use response_time_analysis::arrival::{ArrivalBound, Curve};
    let mut out = Outcome::default();
    let mut cur = Curve::new(c.dmin.iter().map(|x| d(*x)).collect());
    let h = 320u64;
    let mut iterated = false;
    let mut grown_after_iter = false;
    for (i, op) in c.ops.iter().enumerate() {
        let before = format!("{:?}", cur).len();
        let what = format!("delta-min prefix {:?} after operations {:?}", c.dmin, &c.ops[..=i]);
        match op {
            CurveOp::Steps(n) => {
                let n = *n;
                guard(|| cur.steps_iter().take(n).count()).map_err(|e| format!("{}: steps_iter panicked: {}", what, e))?;
                iterated = true;
            }
            CurveOp::Query(x) => {
                let x = *x;
                guard(|| cur.number_arrivals(d(x))).map_err(|e| format!("{}: number_arrivals panicked: {}", what, e))?;
            }
            CurveOp::Extrapolate(hz) => {
                let hz = *hz;
                guard_with_budget(2_000_000, || cur.extrapolate(d(hz))).map_err(|e| format!("{}: extrapolate did not return: {}", what, e))?;
            }
            CurveOp::ExtrapolateSteps(n) => {
                let n = *n;
                guard_with_budget(2_000_000, || cur.extrapolate_steps(n)).map_err(|e| format!("{}: extrapolate_steps did not return: {}", what, e))?;
            }
            CurveOp::Clone => cur = cur.clone(),
            CurveOp::JitterProbe(j) => {
                let jc = cur.clone_with_jitter(d(*j));
                steps_match(jc.as_ref(), h, &format!("jittered clone (+{}) of {}", j, what))?;
            }
        }
        if iterated && format!("{:?}", cur).len() > before {
            grown_after_iter = true;
        }
        steps_match(&cur, h, &what)?;
        out.inner += 1;
    }
    out.nontrivial = grown_after_iter;
    out.label_if(grown_after_iter, "extended-after-iteration");
    out.label_if(c.ops.iter().any(|o| matches!(o, CurveOp::Clone)), "clone");
    out.label_if(c.ops.iter().any(|o| matches!(o, CurveOp::JitterProbe(_))), "jitter-probe");
    Ok(out)
}

fn exhaustive(tier: Tier, _seed: u64) -> ExtraResult {
    let mut r = ExtraResult { exhaustive: true, replay_subcheck: "arrival", ..Default::default() };
    let (tmax, jmax, emax) = tier.pick((9u64, 24u64, 5u64), (14u64, 45u64, 7u64));
    let mut specs: Vec<ArrSpec> = vec![];
    for t in 1..=tmax {
        specs.push(ArrSpec::Periodic { t });
        for j in 0..=jmax {
            specs.push(ArrSpec::Sporadic { t, j });
        }
    }
    // all non-decreasing delta-min vectors of length <= 3 with entries <= emax and a positive last entry
    for a in 0..=emax {
        if a > 0 {
            specs.push(ArrSpec::Curve { dmin: vec![a], extrapolating: false });
            specs.push(ArrSpec::Curve { dmin: vec![a], extrapolating: true });
        }
        for b in a..=emax {
            if b == 0 {
                continue;
            }
            for e in [false, true] {
                specs.push(ArrSpec::Curve { dmin: vec![a, b], extrapolating: e });
            }
            for c in b..=emax {
                for e in [false, true] {
                    specs.push(ArrSpec::Curve { dmin: vec![a, b, c], extrapolating: e });
                }
            }
        }
    }
    let base = specs.clone();
    for sp in &base {
        for j in [1u64, 2, 5] {
            specs.push(ArrSpec::Jittered { inner: sp.clone().boxed(), j });
        }
    }
    for (i, sp) in base.iter().enumerate() {
        if i % 7 == 0 {
            specs.push(ArrSpec::Sum { a: sp.clone().boxed(), b: ArrSpec::Periodic { t: 3 + (i as u64 % 4) }.boxed() });
        }
    }
    for sp in specs {
        let c = ArrCase { spec: sp, horizon: 60 };
        r.evaluations += 1;
        match check_arr(&c) {
            Ok(o) => {
                if o.nontrivial {
                    r.nontrivial += 1;
                }
            }
            Err(msg) => {
                r.failure = Some((serde_json::to_value(&c).unwrap(), msg));
                return r;
            }
        }
    }
    r.note = format!(
        "every Periodic(T<={t}), Sporadic(T<={t}, J<={j}), delta-min vector of length <= 3 with entries <= {e} (plain and extrapolating), each also jittered by 1, 2, 5, and a sample summed with a periodic stream: steps_iter vs. brute force up to delta = 60 (failures are reported through the 'arrival' sub-check's replay format)",
        t = tmax,
        j = jmax,
        e = emax
    );
    r
}

pub fn def() -> PropertyDef {
    PropertyDef {
        id: "C11",
        rule: "generated: every ArrivalBound spec (Periodic, Sporadic with J up to 4T, plain/extrapolating curves incl. plateau-ended and non-super-additive prefixes, Never, jittered clones, Propagated, sum_of/Vec/slice, derived curves via from_arrival_bound(_until)/From<Periodic|Sporadic|ArrivalCurvePrefix>, ArrivalCurvePrefix direct and derived; depth <= 3) with a horizon of several prefix repetitions, and request bounds (RBF / Aggregate / Slice / nested boxed aggregates) over 1-4 (arrival, positive cost model) components; oracle: the sequence yielded by steps_iter up to H must equal {delta in [1,H] : f(delta-1) < f(delta)} computed by brute force from number_arrivals / service_needed, be strictly increasing and free of 0, be reproducible by a second iterator; demand::step_offsets = steps - 1. Non-trivial: >= 3 steps within H and (jitter, burst, nesting) resp. >= 2 components. Inputs whose construction / number_arrivals itself fails are skipped here (that is C12 / C20). Known finding matched by signature: a direct ArrivalCurvePrefix yields one leading 0 and is otherwise exact. Sub-check curve-history: one arrival::Curve object (super-additive prefix of 1-6 entries, plateaus allowed) is driven through a generated history of 1-7 operations (pull k steps from an iterator, number_arrivals query, extrapolate(h), extrapolate_steps(n), continue with a clone, look at a jittered clone); after every operation the steps of the object (and of the jittered clone) up to 320 must be exactly the increase points of its current number_arrivals, so nothing computed for an earlier state of the object may survive an extension (non-trivial: the prefix grew after an iterator had been used).".into(),
        assumptions: vec![
            "every job cost is positive (stated in the property for request bounds)".into(),
            "delta-min prefixes end with a positive distance; ArrivalCurvePrefix horizon >= 1 and steps realisable (first step at delta = 1)".into(),
        ],
        subchecks: vec![
            subcheck("arrival", (12_000, 200_000), arr_case_strategy, check_arr).with_decoder(decode_arr_case, check_arr),
            subcheck("request-bound", (4000, 80_000), rb_case_strategy, check_rb),
            subcheck("curve-history", (3000, 60_000), curve_hist_strategy, check_curve_hist),
        ],
        extra: Some(Box::new(exhaustive)),
    }
}

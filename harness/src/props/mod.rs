pub mod c06;
pub mod c07;
pub mod c08;
pub mod c09;
pub mod c10;
pub mod c11;
pub mod c12;
pub mod c13;
pub mod c14;
pub mod c15;
pub mod c16;
pub mod c17;
pub mod c19;
pub mod c20;
pub mod ros_safety;
pub mod safety;

use crate::engine::PropertyDef;

pub fn all_ids() -> Vec<&'static str> {
    vec!["C01", "C02", "C03", "C04", "C05", "C06", "C07", "C08", "C09", "C10", "C11", "C12", "C13", "C14", "C15", "C16", "C17", "C18", "C19", "C20"]
}

pub fn property(id: &str) -> Option<PropertyDef> {
    match id {
        "C01" => Some(safety::def_c01()),
        "C02" => Some(safety::def_c02()),
        "C03" => Some(safety::def_c03()),
        "C04" => Some(ros_safety::def_c04()),
        "C05" => Some(ros_safety::def_c05()),
        "C06" => Some(c06::def()),
        "C07" => Some(c07::def()),
        "C08" => Some(c08::def()),
        "C09" => Some(c09::def()),
        "C10" => Some(c10::def()),
        "C11" => Some(c11::def()),
        "C12" => Some(c12::def()),
        "C13" => Some(c13::def()),
        "C14" => Some(c14::def()),
        "C15" => Some(c15::def()),
        "C16" => Some(c16::def()),
        "C17" => Some(c17::def()),
        "C18" => Some(safety::def_c18()),
        "C19" => Some(c19::def()),
        "C20" => Some(c20::def()),
        _ => None,
    }
}

pub mod c08;
pub mod c09;
pub mod c10;
pub mod c11;
pub mod c12;
pub mod c13;
pub mod c14;
pub mod c15;
pub mod c16;

use crate::engine::PropertyDef;

pub fn all_ids() -> Vec<&'static str> {
    vec!["C08", "C09", "C10", "C11", "C12", "C13", "C14", "C15", "C16"]
}

pub fn property(id: &str) -> Option<PropertyDef> {
    match id {
        "C08" => Some(c08::def()),
        "C09" => Some(c09::def()),
        "C10" => Some(c10::def()),
        "C11" => Some(c11::def()),
        "C12" => Some(c12::def()),
        "C13" => Some(c13::def()),
        "C14" => Some(c14::def()),
        "C15" => Some(c15::def()),
        "C16" => Some(c16::def()),
        _ => None,
    }
}

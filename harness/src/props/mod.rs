pub mod c08;
pub mod c09;

use crate::engine::PropertyDef;

pub fn all_ids() -> Vec<&'static str> {
    vec!["C08", "C09"]
}

pub fn property(id: &str) -> Option<PropertyDef> {
    match id {
        "C08" => Some(c08::def()),
        "C09" => Some(c09::def()),
        _ => None,
    }
}

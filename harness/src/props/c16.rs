//! C16 — request-bound functions compose arrival and cost models additively.

use proptest::prelude::*;
use response_time_analysis::demand::{self, AggregateRequestBound, RequestBound};
use serde::{Deserialize, Serialize};

use crate::arr::*;
use crate::cost::*;
use crate::engine::*;
use crate::props::c11::{build_rbf, no_acp_gen, Rb};
use crate::supply_ref::{d, su};

#[derive(Clone, Debug, Serialize, Deserialize)]
pub enum AggKind {
    Aggregate,
    Slice,
    /// Slice of a sub-range [lo, hi)
    SubSlice { lo: usize, hi: usize },
    /// Aggregate of boxed (Aggregate of the first k, rest individually)
    Nested { k: usize },
    /// Aggregate of references
    Refs,
}

#[derive(Clone, Debug, Serialize, Deserialize)]
pub struct Case {
    pub comps: Vec<(ArrSpec, CostSpec)>,
    pub kind: AggKind,
    pub deltas: Vec<u64>,
    pub limits: Vec<usize>,
}

fn strategy(tier: Tier) -> BoxedStrategy<Case> {
    let g = ArrGen { derived: false, ..no_acp_gen(tier.pick(25, 50)) };
    (
        proptest::collection::vec(
            (
                arr_strategy(g),
                prop_oneof![
                    8 => cost_strategy(12, false),
                    // multiframe vectors with zero-cost frames
                    2 => proptest::collection::vec(prop_oneof![1 => Just(0u64), 3 => 0u64..=12], 1..=5).prop_map(|costs| CostSpec::Multiframe { costs }),
                ],
            ),
            1..=4,
        ),
        prop_oneof![
            Just(AggKind::Aggregate),
            Just(AggKind::Slice),
            (0usize..4, 0usize..5).prop_map(|(lo, hi)| AggKind::SubSlice { lo, hi }),
            (0usize..4).prop_map(|k| AggKind::Nested { k }),
            Just(AggKind::Refs),
        ],
        proptest::collection::vec(prop_oneof![1 => Just(0u64), 1 => Just(1u64), 8 => 0u64..250], 1..6),
        proptest::collection::vec(prop_oneof![12 => 0usize..14, 1 => Just(usize::MAX), 1 => Just(usize::MAX - 1), 1 => Just(isize::MAX as usize + 1), 1 => Just(u32::MAX as usize)], 1..5),
    )
        .prop_map(|(comps, kind, deltas, limits)| Case { comps, kind, deltas, limits })
        .boxed()
}

fn top_n(mut v: Vec<u64>, n: usize) -> u64 {
    v.sort_unstable_by(|a, b| b.cmp(a));
    v.iter().take(n).sum()
}

fn check(c: &Case) -> CheckResult {
    let mut out = Outcome::default();
    let n = c.comps.len();
    let (lo, hi) = match &c.kind {
        AggKind::SubSlice { lo, hi } => {
            let lo = lo % (n + 1);
            let hi = lo + hi % (n - lo + 1);
            (lo, hi)
        }
        _ => (0, n),
    };
    let comps = &c.comps[lo..hi];
    // component objects, built separately from the RBFs under test
    let parts = guard(|| comps.iter().map(|(a, cs)| (a.build(), cs.build())).collect::<Vec<_>>())
        .map_err(|e| format!("constructing components panicked: {}", e))?;
    let rbfs: Vec<Rb> = guard(|| comps.iter().map(|(a, cs)| build_rbf(a, cs)).collect::<Vec<_>>())
        .map_err(|e| format!("constructing RBFs panicked: {}", e))?;
    let mut limited_nontrivial = false;
    for &delta in &c.deltas {
        // expected per-component job costs
        let per: Vec<Vec<u64>> = guard(|| {
            parts
                .iter()
                .map(|(ab, cm)| {
                    let k = ab.number_arrivals(d(delta));
                    cm.job_cost_iter().take(k).map(su).collect::<Vec<u64>>()
                })
                .collect::<Vec<_>>()
        })
        .map_err(|e| format!("component query panicked: {}", e))?;
        let comp_cost: Vec<u64> = guard(|| {
            parts
                .iter()
                .map(|(ab, cm)| su(cm.cost_of_jobs(ab.number_arrivals(d(delta)))))
                .collect::<Vec<_>>()
        })
        .map_err(|e| format!("component query panicked: {}", e))?;
        // single RBFs
        for (i, rbf) in rbfs.iter().enumerate() {
            let (sn, it, lw) = guard(|| {
                (
                    su(rbf.service_needed(d(delta))),
                    rbf.job_cost_iter(d(delta)).map(su).collect::<Vec<u64>>(),
                    su(rbf.least_wcet_in_interval(d(delta))),
                )
            })
            .map_err(|e| format!("RBF query panicked: {}", e))?;
            if sn != comp_cost[i] {
                return Err(format!("RBF #{}: service_needed({}) = {} but cost_of_jobs(number_arrivals) = {}", i, delta, sn, comp_cost[i]));
            }
            if it != per[i] {
                return Err(format!("RBF #{}: job_cost_iter({}) = {:?} but the first eta job costs are {:?}", i, delta, it, per[i]));
            }
            if it.iter().sum::<u64>() != sn {
                return Err(format!("RBF #{}: job_cost_iter({}) sums to {} != service_needed {}", i, delta, it.iter().sum::<u64>(), sn));
            }
            if let Some(m) = it.iter().min() {
                if lw > *m {
                    return Err(format!("RBF #{}: least_wcet_in_interval({}) = {} > smallest job cost {}", i, delta, lw, m));
                }
            }
            for &lim in &c.limits {
                let got = guard(|| su(rbf.service_needed_by_n_jobs(d(delta), lim))).map_err(|e| format!("service_needed_by_n_jobs panicked: {}", e))?;
                let exp = top_n(it.clone(), lim);
                if got != exp {
                    return Err(format!("RBF #{}: service_needed_by_n_jobs({}, {}) = {} but the {} largest job costs sum to {}", i, delta, lim, got, lim, exp));
                }
            }
        }
        // the aggregate
        let all: Vec<u64> = per.iter().flatten().copied().collect();
        let total: u64 = comp_cost.iter().sum();
        let limits = c.limits.clone();
        let res = guard(|| {
            let q = |agg: &dyn AggregateRequestBound| {
                let sn = su(agg.service_needed(d(delta)));
                let mut it: Vec<u64> = agg.job_cost_iter(d(delta)).map(su).collect();
                it.sort_unstable();
                let lw = su(agg.least_wcet_in_interval(d(delta)));
                let byn: Vec<(u64, u64)> = limits
                    .iter()
                    .map(|l| (su(agg.service_needed_by_n_jobs(d(delta), *l)), su(agg.service_needed_by_n_jobs_per_component(d(delta), *l))))
                    .collect();
                let all_jobs = su(agg.service_needed_by_n_jobs(d(delta), it.len()));
                (sn, it, lw, byn, all_jobs)
            };
            match &c.kind {
                AggKind::Aggregate => q(&demand::Aggregate::new(rbfs.clone())),
                AggKind::Slice | AggKind::SubSlice { .. } => q(&demand::Slice::of(&rbfs[..])),
                AggKind::Refs => q(&demand::Aggregate::new(rbfs.iter().collect::<Vec<&Rb>>())),
                AggKind::Nested { k } => {
                    // per-component semantics differ for nested aggregates (the inner aggregate is one component)
                    let k = k % (rbfs.len() + 1);
                    let first: Box<dyn RequestBound> = Box::new(demand::Aggregate::new(rbfs[..k].to_vec()));
                    let mut items: Vec<Box<dyn RequestBound>> = vec![first];
                    for r in &rbfs[k..] {
                        items.push(Box::new(r.clone()));
                    }
                    q(&demand::Aggregate::new(items))
                }
            }
        })
        .map_err(|e| format!("aggregate query panicked: {}", e))?;
        let (sn, it, lw, byn, all_jobs) = res;
        if sn != total {
            return Err(format!("aggregate service_needed({}) = {} but the components sum to {}", delta, sn, total));
        }
        let mut exp_sorted = all.clone();
        exp_sorted.sort_unstable();
        if it != exp_sorted {
            return Err(format!("aggregate job_cost_iter({}) = {:?} (sorted) but the components' jobs are {:?}", delta, it, exp_sorted));
        }
        if let Some(m) = all.iter().min() {
            if lw > *m {
                return Err(format!("aggregate least_wcet_in_interval({}) = {} > smallest job cost {}", delta, lw, m));
            }
        }
        if all_jobs != total {
            return Err(format!("service_needed_by_n_jobs({}, #jobs={}) = {} != service_needed {}", delta, all.len(), all_jobs, total));
        }
        let mut prev = 0u64;
        let mut sorted_limits: Vec<(usize, (u64, u64))> = c.limits.iter().copied().zip(byn.iter().copied()).collect();
        sorted_limits.sort();
        for (lim, (got, got_pc)) in sorted_limits {
            let exp = top_n(all.clone(), lim);
            if got != exp {
                return Err(format!("aggregate service_needed_by_n_jobs({}, {}) = {} but the {} largest job costs sum to {}", delta, lim, got, lim, exp));
            }
            if got > total || got < prev {
                return Err(format!("service_needed_by_n_jobs({}, {}) = {} not monotone / exceeds service_needed {}", delta, lim, got, total));
            }
            prev = got;
            let exp_pc: u64 = match &c.kind {
                AggKind::Nested { k } => {
                    let k = k % (per.len() + 1);
                    let inner: Vec<u64> = per[..k].iter().flatten().copied().collect();
                    top_n(inner, lim) + per[k..].iter().map(|v| top_n(v.clone(), lim)).sum::<u64>()
                }
                _ => per.iter().map(|v| top_n(v.clone(), lim)).sum(),
            };
            if got_pc != exp_pc {
                return Err(format!("service_needed_by_n_jobs_per_component({}, {}) = {} but the components' restricted demands sum to {}", delta, lim, got_pc, exp_pc));
            }
            if lim > 0 && lim < all.len() {
                limited_nontrivial = true;
            }
        }
        out.inner += 1;
    }
    out.nontrivial = comps.len() >= 2 && comps.iter().any(|(_, cs)| !cs.is_scalar()) && limited_nontrivial;
    out.label_if(matches!(c.kind, AggKind::Nested { .. }), "nested");
    out.label_if(matches!(c.kind, AggKind::SubSlice { .. }), "sub-slice");
    out.label_if(comps.is_empty(), "empty-aggregate");
    Ok(out)
}

pub fn def() -> PropertyDef {
    PropertyDef {
        id: "C16",
        rule: "generated: 1-4 components (nested arrival spec x cost model: scalar / multiframe / cumulative curve / trace-derived, plain and extrapolating), an aggregation shape (Aggregate of Rc, Aggregate of references, Slice, Slice of a sub-range incl. empty, Aggregate of boxed nested Aggregate), interval lengths (0, 1, random <= 250) and job limits; oracle: recomputation from separately built component objects: service_needed = cost_of_jobs(number_arrivals) = sum of job_cost_iter; aggregates = sum / multiset union of components; least_wcet_in_interval <= every job cost present; service_needed_by_n_jobs = sum of the n largest job costs (sorted by the harness), monotone in n, <= service_needed, = service_needed at n = #jobs; per-component variant = sum of the components' restricted demands. Non-trivial: >= 2 components, a non-scalar cost model and a limit 0 < n < #jobs. Distinct by case JSON.".into(),
        assumptions: vec!["arrival and cost models are taken as black boxes here (their own correctness is C10 / C14)".into()],
        subchecks: vec![subcheck("compose", (10_000, 200_000), strategy, check)],
        extra: None,
    }
}

//! C20 — analyses are total and independent of the build profile.
//!
//! A case is a small program over the public API.  It is executed in this
//! (checked: debug assertions + overflow checks) build and, through a
//! persistent child process, in the unchecked build of the same harness; the
//! two outcome lists must be identical and free of panics / step-budget
//! exhaustions.

use std::cell::RefCell;
use std::io::{BufRead, BufReader, Write};
use std::process::{Child, ChildStdin, ChildStdout, Command, Stdio};

use proptest::prelude::*;
use response_time_analysis::arrival::{self, ArrivalBound};
use response_time_analysis::demand::RequestBound;
use response_time_analysis::supply::SupplyBound;
use response_time_analysis::wcet::JobCostModel;
use serde::{Deserialize, Serialize};

use crate::arr::*;
use crate::cost::*;
use crate::engine::*;
use crate::props::c07::{self, Case19, Case21};
use crate::props::c11::full_gen;
use crate::supply_ref::*;
use crate::tasks::*;

pub const KNOWN_ACP_ANALYSIS: &str = "C20/analysis-over-direct-acp";
pub const KNOWN_ACP_OF_ACP: &str = "C20/acp-from-direct-acp";
pub const KNOWN_TRACE_BURST: &str = "C20/from-trace-burst-larger-than-prefix";

#[derive(Clone, Debug, Serialize, Deserialize)]
pub enum ArrQuery {
    Arrivals(u64),
    Steps(usize),
    DeltaMin(usize),
    JitterThenArrivals(u64, u64),
    JitterThenSteps(u64, usize),
}

#[derive(Clone, Debug, Serialize, Deserialize)]
pub enum CostQuery {
    Cost(usize),
    Least(usize),
    Iter(usize),
}

#[derive(Clone, Debug, Serialize, Deserialize)]
pub enum Prog {
    Uni { tasks: Vec<TaskSpec>, tua: usize, analysis: Analysis, blocking: Option<u64>, limit: u64, wrap: Wrap },
    Ros19 { case: Case19, limit: u64 },
    Ros21 { case: Case21, limit: u64 },
    Arr { spec: ArrSpec, queries: Vec<ArrQuery> },
    Cost { spec: CostSpec, queries: Vec<CostQuery> },
    Supply { spec: SupplySpec, deltas: Vec<u64>, demands: Vec<u64> },
    Rbf { arr: ArrSpec, cost: CostSpec, deltas: Vec<u64>, limits: Vec<usize> },
    /// eager operations on a plain arrival curve, each followed by queries
    CurveOps { dmin: Vec<u64>, ops: Vec<CurveOp>, queries: Vec<u64> },
    /// eager extrapolation of a trace-derived WCET curve, then queries
    CostOps { costs: Vec<u64>, max_n: usize, extrapolate: Vec<usize>, queries: Vec<usize> },
    /// a fixed-point search over a generated step workload (as C08)
    Search { case: crate::props::c08::SearchCase, limit: u64 },
}

#[derive(Clone, Debug, Serialize, Deserialize)]
pub enum CurveOp {
    Extrapolate(u64),
    ExtrapolateSteps(usize),
    WithBound(u64, usize),
    MinDistance(usize),
}

fn fmt_res<T: std::fmt::Debug>(r: Result<T, String>) -> String {
    match r {
        Ok(v) => format!("{:?}", v),
        Err(e) => {
            // normalise: drop source locations (they are identical in both builds, but keep it robust)
            format!("PANIC: {}", e)
        }
    }
}

/// Execute a program; every step is guarded, the outcome is a list of strings.
pub fn execute(p: &Prog) -> Vec<String> {
    let budget = STEP_BUDGET;
    match p {
        Prog::Uni { tasks, tua, analysis, blocking, limit, wrap } => {
            vec![fmt_res(guard_with_budget(budget, || {
                let b = build_tasks(tasks);
                Res::from(run_analysis(tasks, &b, *analysis, *tua, *limit, *blocking, *wrap))
            }))]
        }
        Prog::Ros19 { case, limit } => vec![fmt_res(guard_with_budget(budget, || Res::from(c07::run19(case, &case.supply, *limit))))],
        Prog::Ros21 { case, limit } => vec![fmt_res(guard_with_budget(budget, || Res::from(c07::run21(case, &case.supply, *limit))))],
        Prog::Arr { spec, queries } => {
            let ab = match guard_with_budget(budget, || spec.build()) {
                Ok(ab) => ab,
                Err(e) => return vec![format!("PANIC(build): {}", e)],
            };
            let mut out = vec!["built".to_string()];
            for q in queries {
                out.push(match q {
                    ArrQuery::Arrivals(x) => fmt_res(guard_with_budget(budget, || ab.number_arrivals(d(*x)))),
                    ArrQuery::Steps(k) => fmt_res(guard_with_budget(budget, || ab.steps_iter().take(*k).map(du).collect::<Vec<_>>())),
                    ArrQuery::DeltaMin(k) => fmt_res(guard_with_budget(budget, || arrival::delta_min_iter(&ab).take(*k).map(|(n, x)| (n, du(x))).collect::<Vec<_>>())),
                    ArrQuery::JitterThenArrivals(j, x) => fmt_res(guard_with_budget(budget, || ab.clone_with_jitter(d(*j)).number_arrivals(d(*x)))),
                    ArrQuery::JitterThenSteps(j, k) => {
                        fmt_res(guard_with_budget(budget, || ab.clone_with_jitter(d(*j)).steps_iter().take(*k).map(du).collect::<Vec<_>>()))
                    }
                });
            }
            out
        }
        Prog::Cost { spec, queries } => {
            let cm = match guard_with_budget(budget, || spec.build()) {
                Ok(cm) => cm,
                Err(e) => return vec![format!("PANIC(build): {}", e)],
            };
            let mut out = vec!["built".to_string()];
            for q in queries {
                out.push(match q {
                    CostQuery::Cost(n) => fmt_res(guard_with_budget(budget, || su(cm.cost_of_jobs(*n)))),
                    CostQuery::Least(n) => fmt_res(guard_with_budget(budget, || su(cm.least_wcet(*n)))),
                    CostQuery::Iter(k) => fmt_res(guard_with_budget(budget, || cm.job_cost_iter().take(*k).map(su).collect::<Vec<_>>())),
                });
            }
            out
        }
        Prog::Supply { spec, deltas, demands } => {
            let sup = spec.build();
            let mut out = vec![];
            for x in deltas {
                out.push(fmt_res(guard_with_budget(budget, || su(sup.provided_service(d(*x))))));
            }
            for x in demands {
                out.push(fmt_res(guard_with_budget(budget, || du(sup.service_time(s(*x))))));
            }
            out
        }
        Prog::Rbf { arr, cost, deltas, limits } => {
            let rbf = match guard_with_budget(budget, || response_time_analysis::demand::RBF::new(arr.build(), cost.build())) {
                Ok(r) => r,
                Err(e) => return vec![format!("PANIC(build): {}", e)],
            };
            let mut out = vec!["built".to_string()];
            for x in deltas {
                // a bursty derived arrival model can release tens of thousands of jobs in a few hundred
                // time units, and a lazily extrapolated cost curve does quadratic work in the job count:
                // legitimate but slow, so such queries are skipped (identically in both builds)
                match guard_with_budget(budget, || rbf.arrival_bound.number_arrivals(d(*x))) {
                    Ok(n) if n > 4000 => {
                        out.push(format!("skipped: {} jobs", n));
                        continue;
                    }
                    Ok(_) => {}
                    Err(e) => {
                        out.push(format!("PANIC: {}", e));
                        continue;
                    }
                }
                out.push(fmt_res(guard_with_budget(budget, || {
                    (
                        su(rbf.service_needed(d(*x))),
                        su(rbf.least_wcet_in_interval(d(*x))),
                        limits.iter().map(|l| su(rbf.service_needed_by_n_jobs(d(*x), *l))).collect::<Vec<_>>(),
                    )
                })));
            }
            out.push(fmt_res(guard_with_budget(budget, || rbf.steps_iter().take(12).map(du).collect::<Vec<_>>())));
            out
        }
        Prog::CurveOps { dmin, ops, queries } => {
            let mut cur = match guard_with_budget(budget, || arrival::Curve::new(dmin.iter().map(|x| d(*x)).collect())) {
                Ok(c) => c,
                Err(e) => return vec![format!("PANIC(build): {}", e)],
            };
            let mut out = vec![];
            for op in ops {
                out.push(match op {
                    CurveOp::Extrapolate(h) => fmt_res(guard_with_budget(budget, || cur.extrapolate(d(*h)))),
                    CurveOp::ExtrapolateSteps(n) => fmt_res(guard_with_budget(budget, || cur.extrapolate_steps(*n))),
                    // a bound is extra knowledge about the process, so it is consistent with what the curve
                    // already knows: the interval length is at least one more than the largest known distance
                    CurveOp::WithBound(extra, n) => fmt_res(guard_with_budget(budget, || {
                        let delta = cur.min_distance(usize::MAX) + d(1 + *extra);
                        cur.extrapolate_with_bound((delta, *n))
                    })),
                    CurveOp::MinDistance(n) => fmt_res(guard_with_budget(budget, || du(cur.min_distance(*n)))),
                });
                out.push(fmt_res(guard_with_budget(budget, || queries.iter().map(|x| cur.number_arrivals(d(*x))).collect::<Vec<_>>())));
            }
            out.push(fmt_res(guard_with_budget(budget, || cur.steps_iter().take(20).map(du).collect::<Vec<_>>())));
            out
        }
        Prog::CostOps { costs, max_n, extrapolate, queries } => {
            let mut cur = match guard_with_budget(budget, || response_time_analysis::wcet::Curve::from_trace(costs.iter().map(|x| s(*x)), *max_n)) {
                Ok(c) => c,
                Err(e) => return vec![format!("PANIC(build): {}", e)],
            };
            let mut out = vec![];
            for n in extrapolate {
                out.push(fmt_res(guard_with_budget(budget, || cur.extrapolate(*n))));
                out.push(fmt_res(guard_with_budget(budget, || queries.iter().map(|q| (su(cur.cost_of_jobs(*q)), su(cur.least_wcet(*q)))).collect::<Vec<_>>())));
            }
            out.push(fmt_res(guard_with_budget(budget, || cur.job_cost_iter().take(30).map(su).collect::<Vec<_>>())));
            out
        }
        Prog::Search { case, limit } => {
            vec![fmt_res(guard_with_budget(budget, || crate::props::c08::run_search_case(case, *limit)))]
        }
    }
}

// --- child process (unchecked build) ---------------------------------------------------

pub const CHILD_BIN: &str = "/verif/target/unchecked/rtaverif";

struct ChildProc {
    child: Child,
    stdin: ChildStdin,
    stdout: BufReader<ChildStdout>,
}

thread_local! {
    static CHILD: RefCell<Option<ChildProc>> = const { RefCell::new(None) };
}

fn spawn_child() -> Result<ChildProc, String> {
    // (development aid: RTAVERIF_CHILD_BIN points at another build of the unchecked binary)
    let bin = std::env::var("RTAVERIF_CHILD_BIN").unwrap_or_else(|_| CHILD_BIN.to_string());
    let mut child = Command::new(&bin)
        .arg("child")
        .stdin(Stdio::piped())
        .stdout(Stdio::piped())
        .stderr(Stdio::null())
        .spawn()
        .map_err(|e| format!("cannot start {}: {}", bin, e))?;
    let stdin = child.stdin.take().unwrap();
    let stdout = BufReader::new(child.stdout.take().unwrap());
    Ok(ChildProc { child, stdin, stdout })
}

/// Evaluate the program in the unchecked build. Err = infrastructure problem or the child died.
pub fn run_in_child(p: &Prog) -> Result<Vec<String>, String> {
    CHILD.with(|c| {
        let mut slot = c.borrow_mut();
        if slot.is_none() {
            *slot = Some(spawn_child()?);
        }
        let line = serde_json::to_string(p).map_err(|e| e.to_string())?;
        let cp = slot.as_mut().unwrap();
        let io = (|| -> std::io::Result<String> {
            cp.stdin.write_all(line.as_bytes())?;
            cp.stdin.write_all(b"\n")?;
            cp.stdin.flush()?;
            let mut resp = String::new();
            cp.stdout.read_line(&mut resp)?;
            Ok(resp)
        })();
        match io {
            Ok(resp) if !resp.trim().is_empty() => serde_json::from_str::<Vec<String>>(resp.trim()).map_err(|e| format!("bad child reply: {}", e)),
            _ => {
                // the child died (abort, stack overflow, out of memory, ...)
                if let Some(mut dead) = slot.take() {
                    let _ = dead.child.kill();
                    let _ = dead.child.wait();
                }
                Err("CHILD-DIED".to_string())
            }
        }
    })
}

/// `rtaverif child`: read programs (one JSON per line), write outcome lists.
pub fn child_main() {
    let stdin = std::io::stdin();
    let stdout = std::io::stdout();
    for line in stdin.lock().lines() {
        let line = match line {
            Ok(l) => l,
            Err(_) => break,
        };
        if line.trim().is_empty() {
            continue;
        }
        let out = match serde_json::from_str::<Prog>(&line) {
            Ok(p) => execute(&p),
            Err(e) => vec![format!("DECODE-ERROR: {}", e)],
        };
        let mut so = stdout.lock();
        let _ = writeln!(so, "{}", serde_json::to_string(&out).unwrap());
        let _ = so.flush();
    }
}

// --- generation ----------------------------------------------------------------------

fn scale_tasks(ts: &mut [TaskSpec], f: u64) {
    for t in ts.iter_mut() {
        crate::ros::stretch(&mut t.arr, f);
        t.wcet *= f;
        t.deadline *= f;
        for sgl in t.segs.iter_mut() {
            *sgl *= f;
        }
        t.max_np *= f;
    }
}

fn uni_prog(tier: Tier) -> BoxedStrategy<Prog> {
    let g = TaskGen {
        arr: ArrGen { tmax: tier.pick(40, 80), never: true, plateau_end: true, plain_curves: true, derived: true, acp: true, loose: true, poisson: false, depth: 2 },
        cmax: 8,
        nmax: 4,
        dfac: 3,
    };
    (
        taskset_strategy(g),
        0usize..4,
        proptest::sample::select(ALL_ANALYSES.to_vec()),
        prop_oneof![2 => Just(None), 1 => (0u64..10).prop_map(Some)],
        // (limit in base units, scale): limits beyond 3000 time units only occur together with a
        // scaling of all time values, so that the library's debug brute-force cross-check (active up to
        // a limit of exactly 100000) and lazily extrapolated curves stay within reasonable work
        prop_oneof![
            6 => (1u64..400).prop_map(|l| (l, 1u64, 0i64)),
            3 => Just((3000u64, 1u64, 0i64)),
            2 => (-1i64..=1).prop_map(|adj| (100u64, 1_000u64, adj)),       // 99999 / 100000 / 100001
            1 => (101u64..400).prop_map(|l| (l, 1_000u64, 0i64)),          // above the cross-check threshold
            1 => (1u64..3000).prop_map(|l| (l, 1_000_000u64, 0i64)),       // values up to ~10^9
        ],
        prop_oneof![Just(Wrap::Plain), Just(Wrap::Boxed), Just(Wrap::Refs)],
    )
        .prop_map(|(mut tasks, tua, analysis, blocking, (limit, scale, adj), wrap)| {
            let tua = tua % tasks.len();
            let (limit, blocking) = if scale > 1 {
                scale_tasks(&mut tasks, scale);
                (((limit * scale) as i64 + adj) as u64, blocking.map(|b| b * scale))
            } else {
                (limit, blocking)
            };
            Prog::Uni { tasks, tua, analysis, blocking, limit, wrap }
        })
        .boxed()
}

fn with_never19(mut k: Case19, sel: u8) -> Case19 {
    // edge stratum: callbacks that never arrive
    match sel % 8 {
        0 => k.own.0 = ArrSpec::Never,
        1 if !k.others.is_empty() => k.others[0].0 = ArrSpec::Never,
        _ => {}
    }
    k
}

fn with_never21(mut k: Case21, sel: u8) -> Case21 {
    match sel % 8 {
        0 => {
            let e = *k.chain.last().unwrap();
            k.cbs[e].arr = ArrSpec::Never;
        }
        1 => {
            for cb in k.cbs.iter_mut() {
                if matches!(cb.kind, c07::Kind21::Unknown | c07::Kind21::Polled(_)) {
                    cb.arr = ArrSpec::Never;
                }
            }
        }
        2 => {
            for cb in k.cbs.iter_mut() {
                cb.arr = ArrSpec::Never;
            }
        }
        _ => {}
    }
    k
}

fn prog_strategy(tier: Tier) -> BoxedStrategy<Prog> {
    let arr_q = prop_oneof![
        4 => prop_oneof![2 => 0u64..300, 1 => 0u64..100_000, 1 => 0u64..2_000_000_000].prop_map(ArrQuery::Arrivals),
        2 => (0usize..40).prop_map(ArrQuery::Steps),
        2 => (0usize..20).prop_map(ArrQuery::DeltaMin),
        2 => (0u64..100, 0u64..300).prop_map(|(j, x)| ArrQuery::JitterThenArrivals(j, x)),
        1 => (0u64..100, 0usize..30).prop_map(|(j, k)| ArrQuery::JitterThenSteps(j, k)),
    ];
    let cost_q = prop_oneof![
        3 => prop_oneof![3 => 0usize..40, 1 => 0usize..3000].prop_map(CostQuery::Cost),
        2 => (0usize..60).prop_map(CostQuery::Least),
        2 => (0usize..60).prop_map(CostQuery::Iter),
    ];
    let trace_arr = (proptest::collection::vec(prop_oneof![1 => Just(0u64), 4 => 1u64..40], 1..16), 1usize..8, any::<bool>()).prop_map(|(gaps, prefix_jobs, extrapolating)| {
        let mut t = 0;
        let mut trace = vec![0];
        for g in gaps {
            t += g;
            trace.push(t);
        }
        ArrSpec::FromTrace { trace, prefix_jobs, extrapolating }
    });
    prop_oneof![
        8 => uni_prog(tier),
        3 => (c07::strategy19(tier), any::<u8>(), prop_oneof![2 => 1u64..300, 2 => Just(1400u64), 1 => 1401u64..6000])
            .prop_map(|(case, sel, limit)| Prog::Ros19 { case: with_never19(case, sel), limit }),
        3 => (c07::strategy21(tier), any::<u8>(), prop_oneof![2 => 1u64..300, 2 => Just(1400u64), 1 => 1401u64..6000])
            .prop_map(|(case, sel, limit)| Prog::Ros21 { case: with_never21(case, sel), limit }),
        5 => (prop_oneof![6 => arr_strategy(full_gen(tier.pick(40, 80))), 1 => trace_arr], proptest::collection::vec(arr_q, 1..6))
            .prop_map(|(spec, mut queries)| {
                // lazily extrapolated curves do quadratic work in the queried length: keep it moderate
                let lazy = spec.any(&|x| matches!(x, ArrSpec::Curve { extrapolating: true, .. } | ArrSpec::FromTrace { extrapolating: true, .. } | ArrSpec::CurveFromIter { extrapolating: true, .. } | ArrSpec::Poisson { .. }));
                let cap = if lazy { 3000 } else { u64::MAX };
                for q in queries.iter_mut() {
                    match q {
                        ArrQuery::Arrivals(x) => *x = (*x).min(cap),
                        _ => {}
                    }
                }
                Prog::Arr { spec, queries }
            }),
        2 => (cost_strategy(30, false), proptest::collection::vec(cost_q, 1..6)).prop_map(|(spec, queries)| Prog::Cost { spec, queries }),
        1 => (
            prop_oneof![reservation_strategy(1_000_000_000), reservation_strategy(50), user_supply_strategy(), Just(SupplySpec::Dedicated)],
            proptest::collection::vec(prop_oneof![0u64..200, 0u64..4_000_000_000], 1..6),
            proptest::collection::vec(prop_oneof![0u64..200, 0u64..1_000_000], 1..6)
        )
            .prop_map(|(spec, deltas, demands)| Prog::Supply { spec, deltas, demands }),
        1 => (
            dmin_strategy(6, 40, true),
            proptest::collection::vec(
                prop_oneof![
                    3 => (0u64..600).prop_map(CurveOp::Extrapolate),
                    2 => (0usize..40).prop_map(CurveOp::ExtrapolateSteps),
                    2 => (0u64..300, 0usize..12).prop_map(|(x, n)| CurveOp::WithBound(x, n)),
                    1 => prop_oneof![0usize..40, Just(usize::MAX)].prop_map(CurveOp::MinDistance),
                ],
                1..5
            ),
            proptest::collection::vec(prop_oneof![0u64..400, 0u64..100_000], 1..5)
        )
            .prop_map(|(dmin, ops, queries)| Prog::CurveOps { dmin, ops, queries }),
        1 => (
            proptest::collection::vec(prop_oneof![1 => Just(0u64), 6 => 1u64..30], 1..14),
            1usize..8,
            proptest::collection::vec(prop_oneof![4 => 0usize..60, 1 => 0usize..2000], 1..4),
            proptest::collection::vec(prop_oneof![4 => 0usize..60, 1 => 0usize..5000], 1..5)
        )
            .prop_map(|(costs, max_n, extrapolate, queries)| Prog::CostOps { costs, max_n, extrapolate, queries }),
        1 => (crate::props::c08::search_case_strategy(), 1u64..400).prop_map(|(case, limit)| Prog::Search { case, limit }),
        2 => (
            arr_strategy(full_gen(tier.pick(40, 80))),
            cost_strategy(12, false),
            proptest::collection::vec(0u64..400, 1..5),
            proptest::collection::vec(0usize..10, 1..4)
        )
            .prop_map(|(arr, cost, deltas, limits)| Prog::Rbf { arr, cost, deltas, limits }),
    ]
    .boxed()
}

pub fn decode(d: &mut crate::dec::Dec) -> Prog {
    use crate::dec::*;
    let full = DecArr { tmax: 40, never: true, derived: true, acp: true };
    match d.pick(6) {
        0 | 1 | 2 => {
            let mut tasks = dec_tasks(d, full, 4, 8);
            let tua = d.pick(tasks.len());
            let analysis = ALL_ANALYSES[d.pick(9)];
            let blocking = if d.flag() { Some(d.range(0, 9)) } else { None };
            let (limit, scale, adj) = match d.pick(6) {
                0 | 1 | 2 => (d.range(1, 399), 1u64, 0i64),
                3 => (3000, 1, 0),
                4 => (100, 1000, d.range(0, 2) as i64 - 1),
                _ => (d.range(101, 399), 1000, 0),
            };
            let (limit, blocking) = if scale > 1 {
                scale_tasks(&mut tasks, scale);
                (((limit * scale) as i64 + adj) as u64, blocking.map(|b| b * scale))
            } else {
                (limit, blocking)
            };
            let wrap = [Wrap::Plain, Wrap::Boxed, Wrap::Refs][d.pick(3)];
            Prog::Uni { tasks, tua, analysis, blocking, limit, wrap }
        }
        3 => {
            let case = c07::decode19(d);
            let sel = d.byte();
            Prog::Ros19 { case: with_never19(case, sel), limit: d.range(1, 3000) }
        }
        4 => {
            let case = c07::decode21(d);
            let sel = d.byte();
            Prog::Ros21 { case: with_never21(case, sel), limit: d.range(1, 3000) }
        }
        _ => {
            let spec = dec_arr(d, full, 3);
            let lazy = spec.any(&|x| matches!(x, ArrSpec::Curve { extrapolating: true, .. }));
            let queries = d.vec(1, 5, |d| match d.pick(5) {
                0 | 1 => ArrQuery::Arrivals(if lazy { d.range(0, 3000) } else { d.range(0, 2_000_000_000) }),
                2 => ArrQuery::Steps(d.pick(40)),
                3 => ArrQuery::DeltaMin(d.pick(20)),
                _ => ArrQuery::JitterThenArrivals(d.range(0, 99), d.range(0, 299)),
            });
            Prog::Arr { spec, queries }
        }
    }
}

// --- the check -----------------------------------------------------------------------

fn specs_of(p: &Prog) -> Vec<&ArrSpec> {
    match p {
        Prog::Uni { tasks, .. } => tasks.iter().map(|t| &t.arr).collect(),
        Prog::Ros19 { case, .. } => std::iter::once(&case.own.0).chain(case.others.iter().map(|o| &o.0)).collect(),
        Prog::Ros21 { case, .. } => case.cbs.iter().map(|c| &c.arr).collect(),
        Prog::Arr { spec, .. } => vec![spec],
        Prog::Rbf { arr, .. } => vec![arr],
        _ => vec![],
    }
}

fn trace_all_zero(a: &ArrSpec) -> bool {
    a.any(&|x| match x {
        ArrSpec::FromTrace { trace, prefix_jobs, .. } => {
            // the inferred prefix is all zero iff the largest recorded run (prefix_jobs + 1 events, or
            // the whole trace if shorter) occurs simultaneously somewhere
            let k = (*prefix_jobs).min(trace.len().saturating_sub(1));
            k >= 1 && (0..trace.len() - k).any(|i| trace[i + k] == trace[i])
        }
        _ => false,
    })
}

/// known-finding signature of a failing program, if any
fn known_signature(p: &Prog, checked: &[String], unchecked: &Result<Vec<String>, String>) -> Option<&'static str> {
    let specs = specs_of(p);
    let all = |f: &dyn Fn(&str) -> bool| checked.iter().filter(|s| s.starts_with("PANIC")).all(|s| f(s));
    let has_panic = checked.iter().any(|s| s.starts_with("PANIC"));
    let _ = unchecked;
    // (a) ArrivalCurvePrefix derived from something that exposes a direct prefix: the leading 0 step is recorded as (0, 0)
    let acp_of_acp = specs.iter().any(|a| a.any(&|x| matches!(x, ArrSpec::AcpOf { inner, .. } if inner.exposes_direct_acp())));
    if acp_of_acp && has_panic && all(&|s| s.contains("arrival_curve_prefix.rs") && s.contains("assertion failed")) {
        return Some(KNOWN_ACP_OF_ACP);
    }
    // (b) analysis / step_offsets over a direct ArrivalCurvePrefix: closed_from_time_zero(0) underflows (checked),
    //     wraps (unchecked)
    let direct = specs.iter().any(|a| a.any(&|x| x.exposes_direct_acp()));
    let is_analysis = matches!(p, Prog::Uni { .. } | Prog::Ros19 { .. } | Prog::Ros21 { .. });
    if direct && is_analysis && has_panic && all(&|s| s.contains("time.rs") && s.contains("subtract with overflow")) {
        return Some(KNOWN_ACP_ANALYSIS);
    }
    // (c) trace with more than prefix_jobs simultaneous events
    if specs.iter().any(|a| trace_all_zero(a)) && has_panic && all(&|s| s.contains("divide by zero") || s.contains("verif-step-budget:arrival::Curve::") || s.contains("verif-step-budget:arrival::ExtrapolatingCurve::") || s.contains("curve.rs")) {
        return Some(KNOWN_TRACE_BURST);
    }
    None
}

/// a delta-min Curve cannot represent a process that never releases anything (Curve::new documents
/// the non-empty prefix as its contract), so deriving one from such a source is outside the domain
fn curve_of_never(p: &Prog) -> bool {
    specs_of(p).iter().any(|a| {
        a.any(&|x| match x {
            ArrSpec::CurveOfJobs { inner, .. } | ArrSpec::CurveOfUntil { inner, .. } | ArrSpec::CurveFromAcp { inner } => inner.never_arrives(),
            _ => false,
        })
    })
}

fn check(p: &Prog) -> CheckResult {
    let mut out = Outcome::default();
    if curve_of_never(p) {
        out.label("curve-derived-from-never(outside the domain, skipped)");
        return Ok(out);
    }
    let checked = execute(p);
    let unchecked = run_in_child(p);
    if let Err(e) = &unchecked {
        if e != "CHILD-DIED" {
            // infrastructure problem (binary missing ...): inconclusive, not a violation
            eprintln!("INCONCLUSIVE: {}", e);
            std::process::exit(2);
        }
    }
    let panicked = checked.iter().any(|s| s.starts_with("PANIC"));
    let differs = match &unchecked {
        Ok(u) => *u != checked,
        Err(_) => true,
    };
    if panicked || differs {
        let msg = if panicked {
            format!(
                "the checked build panics / exhausts its step budget: {:?}; unchecked build: {:?}",
                checked.iter().filter(|s| s.starts_with("PANIC")).take(2).collect::<Vec<_>>(),
                unchecked.as_ref().map(|u| u.iter().take(3).collect::<Vec<_>>())
            )
        } else {
            let u = unchecked.as_ref().unwrap();
            let i = (0..checked.len().max(u.len())).find(|i| checked.get(*i) != u.get(*i)).unwrap_or(0);
            format!("outcome #{} differs between the builds: checked {:?}, unchecked {:?}", i, checked.get(i), u.get(i))
        };
        if let Some(key) = known_signature(p, &checked, &unchecked) {
            return known_or_violation(key, msg, out);
        }
        return Err(msg);
    }
    out.inner = checked.len() as u64;
    out.nontrivial = match p {
        Prog::Uni { .. } | Prog::Ros19 { .. } | Prog::Ros21 { .. } => true,
        Prog::Arr { spec, .. } | Prog::Rbf { arr: spec, .. } => spec.any(&|x| matches!(x, ArrSpec::Curve { extrapolating: true, .. } | ArrSpec::FromTrace { extrapolating: true, .. } | ArrSpec::CurveFromIter { extrapolating: true, .. } | ArrSpec::CurveOfJobs { .. } | ArrSpec::CurveOfUntil { .. } | ArrSpec::CurveFromAcp { .. })),
        Prog::Cost { spec, .. } => matches!(spec, CostSpec::Curve { extrapolating: true, .. } | CostSpec::FromTrace { extrapolating: true, .. }),
        Prog::Supply { .. } => false,
        Prog::CurveOps { .. } | Prog::CostOps { .. } | Prog::Search { .. } => true,
    };
    out.label(match p {
        Prog::Uni { .. } => "uniprocessor-analysis",
        Prog::Ros19 { .. } => "ros2-ecrts19",
        Prog::Ros21 { .. } => "ros2-rtss21",
        Prog::Arr { .. } => "arrival-queries",
        Prog::Cost { .. } => "cost-queries",
        Prog::Supply { .. } => "supply-queries",
        Prog::Rbf { .. } => "rbf-queries",
        Prog::CurveOps { .. } => "eager-curve-operations",
        Prog::CostOps { .. } => "eager-cost-curve-operations",
        Prog::Search { .. } => "fixed-point-search",
    });
    if let Prog::Uni { limit, tasks, .. } = p {
        out.label_if(*limit > 100_000, "limit>100000");
        out.label_if(tasks.iter().any(|t| t.wcet >= 1000), "large-values");
        out.label_if(tasks.iter().any(|t| t.arr.never_arrives()), "never");
    }
    out.label_if(checked.iter().any(|s| s.contains("Diverged")), "err-result");
    Ok(out)
}

pub fn def() -> PropertyDef {
    PropertyDef {
        id: "C20",
        rule: "generated: small programs over the public surface on well-formed inputs: (1) any of the nine uniprocessor analyses on task sets with every arrival-model kind (Never, jitter >> T, bursts, plateaus, derived curves, prefixes, traces; depth <= 2), explicit or prescribed blocking, limits small / 3000 / exactly 100000 / above the debug cross-check threshold, all time values optionally scaled by 10^3 or 10^6; (2) the six ROS 2 analyses (as C07, plus strata where the analysed callback / all polled callbacks / all callbacks never arrive) with small, medium and > 100000 limits; (3) arrival-model query programs (number_arrivals up to 2*10^9, steps, delta_min_iter, jittered clones) over every spec kind incl. traces; (4) cost-model queries; (5) supply queries with parameters up to 10^9; (6) RBF queries; (7) eager operations on plain arrival curves (extrapolate, extrapolate_steps, extrapolate_with_bound with arbitrary job counts, min_distance) interleaved with queries; (8) eager extrapolation of trace-derived WCET curves (targets 0..2000) with queries up to 5000 jobs; (9) fixed-point searches over generated step workloads incl. user-defined supplies. Oracle: every step runs under catch_unwind with a step budget of 2*10^7 (work-weighted) loop iterations in this checked build (debug assertions + overflow checks, so the library's own brute-force cross-checks run) and, via a persistent child process, in the unchecked build; no outcome may be a panic / budget exhaustion and the two outcome lists must be identical (a dead child counts as a difference). Known findings are matched by exact signatures. Non-trivial: the program ran an analysis (>= 1 fixed-point search) or an extrapolation / curve derivation. Distinct by case JSON.".into(),
        assumptions: vec![
            "well-formed inputs: periods, budgets, WCETs >= 1, segments within the WCET, budget <= deadline <= period, delta-min prefixes ending with a positive distance, limits >= 1, subchains drawn from the workload, time values <= ~4*10^9".into(),
            "both builds are the same harness at opt-level 3; they differ in debug-assertions and overflow-checks only".into(),
        ],
        subchecks: vec![subcheck("programs", (1500, 60_000), prog_strategy, check).with_decoder(decode, check)],
        extra: None,
    }
}

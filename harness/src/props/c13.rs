//! C13 — curve extrapolation is conservative, only tightens, and is invisible as a cache.

use proptest::prelude::*;
use response_time_analysis::arrival::{ArrivalBound, Curve, ExtrapolatingCurve};
use serde::{Deserialize, Serialize};

use crate::arr::*;
use crate::engine::*;
use crate::supply_ref::{d, du};

pub const KNOWN_EAGER_BEYOND: &str = "C13/eager-extrapolate-more-arrivals-beyond-horizon";

fn mk_curve(dmin: &[u64]) -> Curve {
    Curve::new(dmin.iter().map(|x| d(*x)).collect())
}

// --- eager extrapolation ----------------------------------------------------------

#[derive(Clone, Debug, Serialize, Deserialize)]
pub enum EagerOp {
    Horizon(u64),
    Steps(usize),
    /// extrapolate_with_bound with the next entry of the longer curve
    WithBound,
    /// extrapolate_with_bound with a wrong job count (must be ignored)
    WithBoundWrongCount(u64),
}

#[derive(Clone, Debug, Serialize, Deserialize)]
pub struct EagerCase {
    /// a super-additive curve; the prefix under test is its first `cut` entries
    pub longer: Vec<u64>,
    pub cut: usize,
    pub ops: Vec<EagerOp>,
    pub seqs: Vec<Vec<u16>>,
}

fn eager_strategy(tier: Tier) -> BoxedStrategy<EagerCase> {
    let tmax = tier.pick(25, 50);
    (
        dmin_strategy(9, tmax, true),
        1usize..9,
        proptest::collection::vec(
            prop_oneof![
                4 => (0u64..400).prop_map(EagerOp::Horizon),
                3 => (0usize..30).prop_map(EagerOp::Steps),
                3 => Just(EagerOp::WithBound),
                1 => (0u64..100).prop_map(EagerOp::WithBoundWrongCount),
            ],
            1..4,
        ),
        proptest::collection::vec(choices_strategy(), 1..4),
    )
        .prop_map(|(longer, cut, ops, seqs)| EagerCase { longer, cut, ops, seqs })
        .boxed()
}

fn check_eager(c: &EagerCase) -> CheckResult {
    let mut out = Outcome::default();
    // the prefix: a cut of the longer curve whose last entry is positive
    let mut cut = c.cut.min(c.longer.len()).max(1);
    while cut < c.longer.len() && c.longer[cut - 1] == 0 {
        cut += 1;
    }
    let pre: Vec<u64> = c.longer[..cut].to_vec();
    if *pre.last().unwrap() == 0 {
        return Ok(out);
    }
    let l0 = *pre.last().unwrap();
    let big = (6 * l0 + 8 * c.longer.last().unwrap() + 60).min(3000);
    let orig = mk_curve(&pre);
    let eta0: Vec<usize> = guard(|| (0..=big).map(|x| orig.number_arrivals(d(x))).collect::<Vec<_>>())
        .map_err(|e| format!("number_arrivals of the un-extrapolated curve panicked: {}", e))?;
    let mut cur = orig.clone();
    let mut len_known: Option<usize> = Some(cut); // length of the delta-min vector while it is still a cut of `longer`
    let mut used_bound = false;
    let mut known_beyond: Option<String> = None;
    // how far the (extended) prefix reaches
    let mut reach = l0;
    for op in &c.ops {
        match op {
            EagerOp::Horizon(h) => {
                guard(|| cur.extrapolate(d(*h))).map_err(|e| format!("extrapolate({}) panicked: {}", h, e))?;
                len_known = None;
            }
            EagerOp::Steps(n) => {
                guard(|| cur.extrapolate_steps(*n)).map_err(|e| format!("extrapolate_steps({}) panicked: {}", n, e))?;
                len_known = None;
            }
            EagerOp::WithBound => {
                // only meaningful while the curve is still a cut of `longer` of known length
                match len_known {
                    Some(l) if l < c.longer.len() => {
                        let bound = (d(c.longer[l] + 1), l + 2);
                        guard(|| cur.extrapolate_with_bound(bound)).map_err(|e| format!("extrapolate_with_bound panicked: {}", e))?;
                        if du(cur.min_distance(usize::MAX)) != c.longer[l] {
                            return Err(format!(
                                "extrapolate_with_bound(({}, {})) on the cut {:?} of the super-additive curve {:?} recorded distance {} instead of {}",
                                c.longer[l] + 1,
                                l + 2,
                                &c.longer[..l],
                                c.longer,
                                du(cur.min_distance(usize::MAX)),
                                c.longer[l]
                            ));
                        }
                        len_known = Some(l + 1);
                        used_bound = true;
                    }
                    _ => continue,
                }
            }
            EagerOp::WithBoundWrongCount(x) => {
                let l = match len_known {
                    Some(l) => l,
                    None => continue,
                };
                let wrong = l + 2 + 1 + (*x as usize % 3);
                let snapshot: Vec<usize> = guard(|| (0..=big.min(300)).map(|y| cur.number_arrivals(d(y))).collect::<Vec<_>>())?;
                guard(|| cur.extrapolate_with_bound((d(*x + 1), wrong))).map_err(|e| format!("extrapolate_with_bound panicked: {}", e))?;
                let after: Vec<usize> = guard(|| (0..=big.min(300)).map(|y| cur.number_arrivals(d(y))).collect::<Vec<_>>())?;
                if snapshot != after {
                    return Err("extrapolate_with_bound with a job count that is not the next element changed the curve".into());
                }
                continue;
            }
        }
        reach = reach.max(du(cur.min_distance(usize::MAX)));
        let eta: Vec<usize> = guard(|| (0..=big).map(|x| cur.number_arrivals(d(x))).collect::<Vec<_>>())
            .map_err(|e| format!("number_arrivals after {:?} panicked: {}", op, e))?;
        for x in 0..=big as usize {
            if (x as u64) <= l0 && eta[x] != eta0[x] {
                return Err(format!(
                    "after {:?} the value inside the original prefix changed: delta={} was {} now {} (prefix {:?})",
                    op, x, eta0[x], eta[x], pre
                ));
            }
            if eta[x] > eta0[x] {
                let msg = format!(
                    "after {:?} the curve claims {} arrivals at delta={} but the un-extrapolated curve only {} (prefix {:?})",
                    op, eta[x], x, eta0[x], pre
                );
                if (x as u64) > reach {
                    known_beyond = Some(msg);
                    continue;
                }
                return Err(msg);
            }
        }
        // still bounds every sequence admissible for the original prefix (for bounds taken from the
        // longer curve: every sequence admissible for the longer curve)
        let constraints: &[u64] = if used_bound { &c.longer[..] } else { &pre[..] };
        let mut all = vec![vec![]];
        all.extend(c.seqs.iter().cloned());
        for chv in &all {
            let mut ch = Choices::new(chv);
            let ev = curve_events(constraints, 0, big as i64, &mut ch, 350);
            let mw = max_window_table(&ev, big);
            out.inner += 1;
            for x in 0..=big as usize {
                if mw[x] > eta[x] {
                    return Err(format!(
                        "after {:?} a sequence respecting the prefix {:?} has {} events in a window of length {} but the curve says {} (sequence starts {:?})",
                        op,
                        constraints,
                        mw[x],
                        x,
                        eta[x],
                        &ev[..ev.len().min(10)]
                    ));
                }
            }
        }
    }
    if let Some(msg) = known_beyond {
        return known_or_violation(KNOWN_EAGER_BEYOND, msg, out);
    }
    out.nontrivial = pre.len() >= 2 && reach > l0;
    out.label_if(used_bound, "with-bound");
    out.label_if(pre.len() == 1, "degenerate-prefix");
    out.label_if(pre.first() == Some(&0), "burst");
    Ok(out)
}

// --- ExtrapolatingCurve: cache invisibility ------------------------------------------

#[derive(Clone, Debug, Serialize, Deserialize)]
pub enum Op {
    Arrivals { who: usize, delta: u64 },
    Steps { who: usize, k: usize },
    /// take `pre` steps from an iterator on `who`, query `other` while the iterator is alive, take `post` more
    HoldThenQuery { who: usize, pre: usize, other: usize, delta: u64, post: usize },
    Clone { who: usize },
    Jitter { who: usize, j: u64 },
}

#[derive(Clone, Debug, Serialize, Deserialize)]
pub struct HistCase {
    pub dmin: Vec<u64>,
    pub ops: Vec<Op>,
}

fn delta_strategy() -> BoxedStrategy<u64> {
    prop_oneof![1 => Just(0u64), 4 => 0u64..60, 4 => 0u64..600, 1 => 0u64..3000].boxed()
}

/// dense prefixes (several events per time unit) with long queries: the shared cache grows to
/// thousands of entries (behaviour that only shows at large sizes)
fn dense_hist_strategy() -> BoxedStrategy<HistCase> {
    (
        proptest::collection::vec(prop_oneof![2 => Just(0u64), 1 => Just(1u64)], 3..=6),
        proptest::collection::vec((0usize..3, 400u64..2600, any::<bool>()), 2..5),
    )
        .prop_map(|(incs, qs)| {
            let mut acc = 0;
            let mut v: Vec<u64> = incs
                .iter()
                .map(|x| {
                    acc += x;
                    acc
                })
                .collect();
            if *v.last().unwrap() == 0 {
                let l = v.len();
                v[l - 1] = 1;
            }
            let dmin = superadditive_closure(&v, v.len());
            let mut ops = vec![Op::Clone { who: 0 }];
            for (who, delta, steps_first) in qs {
                if steps_first {
                    ops.push(Op::Steps { who: who + 1, k: 30 });
                }
                ops.push(Op::Arrivals { who, delta });
            }
            HistCase { dmin, ops }
        })
        .boxed()
}

fn hist_strategy(tier: Tier) -> BoxedStrategy<HistCase> {
    let tmax = tier.pick(25, 50);
    let general = (
        dmin_strategy(6, tmax, true),
        proptest::collection::vec(
            prop_oneof![
                6 => (0usize..5, delta_strategy()).prop_map(|(who, delta)| Op::Arrivals { who, delta }),
                2 => (0usize..5, 0usize..40).prop_map(|(who, k)| Op::Steps { who, k }),
                3 => (0usize..5, 0usize..12, 0usize..5, delta_strategy(), 0usize..12)
                    .prop_map(|(who, pre, other, delta, post)| Op::HoldThenQuery { who, pre, other, delta, post }),
                2 => (0usize..5).prop_map(|who| Op::Clone { who }),
                2 => (0usize..5, 0u64..60).prop_map(|(who, j)| Op::Jitter { who, j }),
            ],
            1..16,
        ),
    )
        .prop_map(|(dmin, ops)| HistCase { dmin, ops })
        .boxed();
    prop_oneof![60 => general, 1 => dense_hist_strategy()].boxed()
}

pub fn decode_hist(d: &mut crate::dec::Dec) -> HistCase {
    use crate::dec::*;
    let dmin = dec_dmin(d, 25, true);
    let ops = d.vec(1, 15, |d| {
        let delta = |d: &mut Dec| match d.pick(4) {
            0 => d.range(0, 59),
            1 | 2 => d.range(0, 599),
            _ => d.range(0, 2999),
        };
        match d.pick(7) {
            0 | 1 | 2 => Op::Arrivals { who: d.pick(5), delta: delta(d) },
            3 => Op::Steps { who: d.pick(5), k: d.pick(40) },
            4 => Op::HoldThenQuery { who: d.pick(5), pre: d.pick(12), other: d.pick(5), delta: delta(d), post: d.pick(12) },
            5 => Op::Clone { who: d.pick(5) },
            _ => Op::Jitter { who: d.pick(5), j: d.range(0, 59) },
        }
    });
    HistCase { dmin, ops }
}

enum Member {
    Ec(ExtrapolatingCurve),
    Jit(Box<dyn ArrivalBound>, u64),
}

impl Member {
    fn ab(&self) -> &dyn ArrivalBound {
        match self {
            Member::Ec(e) => e,
            Member::Jit(b, _) => b.as_ref(),
        }
    }
    fn jitter(&self) -> u64 {
        match self {
            Member::Ec(_) => 0,
            Member::Jit(_, j) => *j,
        }
    }
}

fn check_hist(c: &HistCase) -> CheckResult {
    let mut out = Outcome::default();
    let mk = || mk_curve(&c.dmin);
    let mut eager = mk();
    guard(|| eager.extrapolate(d(4000))).map_err(|e| format!("eager extrapolate panicked: {}", e))?;
    let reference = |delta: u64, jitter: u64| -> usize {
        if delta == 0 {
            0
        } else {
            eager.number_arrivals(d(delta + jitter))
        }
    };
    let fresh_member = |jitter: u64| -> Member {
        let ec = ExtrapolatingCurve::new(mk());
        if jitter == 0 {
            Member::Ec(ec)
        } else {
            Member::Jit(ec.clone_with_jitter(d(jitter)), jitter)
        }
    };
    let mut pool: Vec<Member> = vec![Member::Ec(ExtrapolatingCurve::new(mk()))];
    let mut largest = 0u64;
    let mut small_after_large = false;
    for op in &c.ops {
        match op {
            Op::Arrivals { who, delta } => {
                let m = &pool[who % pool.len()];
                let got = guard(|| m.ab().number_arrivals(d(*delta))).map_err(|e| format!("number_arrivals({}) failed: {} (history {:?})", delta, e, c.ops))?;
                let exp = guard(|| reference(*delta, m.jitter())).map_err(|e| e)?;
                let fr = guard(|| fresh_member(m.jitter()).ab().number_arrivals(d(*delta))).map_err(|e| e)?;
                if got != exp || fr != exp {
                    return Err(format!(
                        "number_arrivals({}) (jitter {}): cached {} / fresh {} / eagerly extrapolated {} (history {:?})",
                        delta,
                        m.jitter(),
                        got,
                        fr,
                        exp,
                        c.ops
                    ));
                }
                if delta + 20 < largest {
                    small_after_large = true;
                }
                largest = largest.max(*delta);
            }
            Op::Steps { who, k } => {
                let m = &pool[who % pool.len()];
                let got = guard(|| m.ab().steps_iter().take(*k).map(du).collect::<Vec<_>>()).map_err(|e| format!("steps_iter failed: {} (history {:?})", e, c.ops))?;
                let fr = guard(|| fresh_member(m.jitter()).ab().steps_iter().take(*k).map(du).collect::<Vec<_>>()).map_err(|e| e)?;
                if got != fr {
                    return Err(format!("first {} steps differ between the used instance {:?} and a fresh one {:?}", k, &got[..got.len().min(12)], &fr[..fr.len().min(12)]));
                }
                largest = largest.max(got.last().copied().unwrap_or(0));
            }
            Op::HoldThenQuery { who, pre, other, delta, post } => {
                let m = &pool[who % pool.len()];
                let o = &pool[other % pool.len()];
                let r = guard(|| {
                    let mut it = m.ab().steps_iter();
                    let mut steps: Vec<u64> = (&mut it).take(*pre).map(du).collect();
                    let q = o.ab().number_arrivals(d(*delta));
                    steps.extend((&mut it).take(*post).map(du));
                    (steps, q)
                })
                .map_err(|e| format!("query while a steps iterator is alive failed: {} (history {:?})", e, c.ops))?;
                let exp_q = guard(|| reference(*delta, o.jitter())).map_err(|e| e)?;
                let fr = guard(|| fresh_member(m.jitter()).ab().steps_iter().take(pre + post).map(du).collect::<Vec<_>>()).map_err(|e| e)?;
                if r.1 != exp_q {
                    return Err(format!("number_arrivals({}) while an iterator is alive = {} but eagerly extrapolated = {}", delta, r.1, exp_q));
                }
                if r.0 != fr {
                    return Err(format!("steps of an iterator interleaved with a query {:?} differ from a fresh one {:?}", &r.0[..r.0.len().min(12)], &fr[..fr.len().min(12)]));
                }
                largest = largest.max(*delta);
            }
            Op::Clone { who } => {
                if pool.len() < 5 {
                    let m = &pool[who % pool.len()];
                    let n = match m {
                        Member::Ec(e) => Member::Ec(e.clone()),
                        Member::Jit(b, j) => Member::Jit(b.clone_with_jitter(d(0)), *j),
                    };
                    pool.push(n);
                }
            }
            Op::Jitter { who, j } => {
                if pool.len() < 5 {
                    let m = &pool[who % pool.len()];
                    let n = Member::Jit(guard(|| m.ab().clone_with_jitter(d(*j))).map_err(|e| e)?, m.jitter() + j);
                    pool.push(n);
                }
            }
        }
        out.inner += 1;
    }
    out.nontrivial = pool.len() >= 2 && small_after_large;
    out.label_if(pool.len() >= 2, "shared-clones");
    out.label_if(small_after_large, "small-after-large");
    out.label_if(c.ops.iter().any(|o| matches!(o, Op::HoldThenQuery { .. })), "iterator-held-during-query");
    out.label_if(c.dmin.len() == 1, "degenerate-prefix");
    Ok(out)
}

pub fn def() -> PropertyDef {
    PropertyDef {
        id: "C13",
        rule: "generated: (a) a super-additive delta-min curve, a cut of it as the prefix under test, 1-3 eager operations (extrapolate(h), extrapolate_steps(n), extrapolate_with_bound with the next entry of the longer curve, extrapolate_with_bound with a wrong job count) and event sequences respecting the prefix (greedy earliest-legal-time + generated slack; for bounds: respecting the longer curve): values at delta <= the original largest distance unchanged, never more arrivals than the un-extrapolated curve, still >= the window counts of every generated sequence, for every delta up to ~6 prefix lengths; (b) histories of 1-15 operations over a pool of up to 5 objects sharing one ExtrapolatingCurve cache (number_arrivals, first k steps, steps iterator held across a query on another clone, clone, clone_with_jitter chains): every answer equals that of a fresh instance and of an eagerly extrapolated Curve, and nothing panics (BorrowMutError). Non-trivial: (a) prefix of >= 2 entries actually extended; (b) >= 2 pool members and a small query after a larger one. Distinct by case JSON.".into(),
        assumptions: vec![
            "prefixes are super-additive, non-decreasing, last entry > 0".into(),
            "extrapolate_with_bound is given true extra knowledge (the next entry of a longer super-additive curve of which the prefix is a cut)".into(),
        ],
        subchecks: vec![
            subcheck("eager", (1500, 60_000), eager_strategy, check_eager),
            subcheck("history", (4000, 150_000), hist_strategy, check_hist).with_decoder(decode_hist, check_hist),
        ],
        extra: None,
    }
}

//! C09 — supply-bound functions are exact, service_time is the exact inverse.

use proptest::prelude::*;
use response_time_analysis::supply::{self, SupplyBound};
use serde::{Deserialize, Serialize};

use crate::engine::*;
use crate::supply_ref::*;

#[derive(Clone, Debug, Serialize, Deserialize)]
pub struct SmallCase {
    pub supply: SupplySpec,
    pub placements: Vec<Placement>,
}

fn small_strategy(tier: Tier) -> BoxedStrategy<SmallCase> {
    let pmax = tier.pick(40, 60);
    (
        reservation_strategy(pmax),
        proptest::collection::vec(placement_strategy(), 1..6),
    )
        .prop_map(|(supply, placements)| SmallCase { supply, placements })
        .boxed()
}

/// min over all window positions of the service in a window of length delta
fn min_window(slots: &[bool], delta: usize) -> u64 {
    let n = slots.len();
    let mut pre = vec![0u64; n + 1];
    for i in 0..n {
        pre[i + 1] = pre[i] + slots[i] as u64;
    }
    (0..=(n - delta)).map(|a| pre[a + delta] - pre[a]).min().unwrap()
}

fn check_small(c: &SmallCase) -> CheckResult {
    let mut out = Outcome::default();
    let (q, dl, p) = c.supply.qdp().unwrap();
    let sup = c.supply.build();
    let maxd = 6 * p;
    // crate values
    let vals: Vec<u64> = guard(|| (0..=maxd + 1).map(|x| su(sup.provided_service(d(x)))).collect::<Vec<_>>())
        .map_err(|e| format!("provided_service panicked: {}", e))?;
    // (c) zero at zero, monotone, 1-Lipschitz
    if vals[0] != 0 {
        return Err(format!("provided_service(0) = {} != 0", vals[0]));
    }
    for x in 1..vals.len() {
        if vals[x] < vals[x - 1] || vals[x] > vals[x - 1] + 1 {
            return Err(format!(
                "provided_service not monotone/1-Lipschitz at delta={}: {} -> {}",
                x,
                vals[x - 1],
                vals[x]
            ));
        }
    }
    // (b) tightness: equals the reference SBF computed from (Q, D, P) alone
    let table = ref_sbf_table(q, dl, p, maxd + 1);
    for x in 0..=(maxd + 1) as usize {
        if vals[x] != table[x] {
            return Err(format!(
                "provided_service({}) = {} but the minimum over all budget placements is {}",
                x, vals[x], table[x]
            ));
        }
    }
    // spot-check the table against the direct (non-incremental) formula
    for x in [1, p / 2 + 1, p, p + dl, 2 * p + 1, maxd] {
        if x <= maxd + 1 && ref_sbf(q, dl, p, x) != table[x as usize] {
            panic!("harness bug: ref_sbf_table disagrees with ref_sbf at {}", x);
        }
    }
    // (a) soundness against explicit placements, and attainment by the constructed worst placement
    let len = (9 * p) as usize;
    let mut pls = c.placements.clone();
    pls.push(Placement::early_then_late(q));
    for (i, pl) in pls.iter().enumerate() {
        let slots = place(q, dl, p, pl, len);
        for delta in 0..=maxd as usize {
            let mw = min_window(&slots, delta);
            out.inner += 1;
            if mw < vals[delta] {
                return Err(format!(
                    "placement {:?}: some window of length {} receives only {} < provided_service = {}",
                    pl, delta, mw, vals[delta]
                ));
            }
            if i == pls.len() - 1 {
                // constructed worst case: window starting at time 0 of the timeline (right after the early budget)
                let got: u64 = slots[..delta].iter().map(|b| *b as u64).sum();
                if got != vals[delta] {
                    return Err(format!(
                        "early-then-late placement delivers {} in [0,{}) but provided_service = {}",
                        got, delta, vals[delta]
                    ));
                }
            }
        }
    }
    // (d) service_time = least t with sbf(t) >= demand (specialised and default impl)
    let wrapped: Box<dyn SupplyBound> = match &c.supply {
        SupplySpec::Periodic { q, p } => Box::new(DefaultOnly(supply::Periodic::new(s(*q), d(*p)))),
        SupplySpec::Constrained { q, d: dl, p } => {
            Box::new(DefaultOnly(supply::Constrained::new(s(*q), d(*dl), d(*p))))
        }
        _ => unreachable!(),
    };
    let maxdem = table[maxd as usize];
    for dem in 0..=maxdem {
        let exp = ref_service_time(&table, dem).unwrap();
        let got = guard(|| du(sup.service_time(s(dem)))).map_err(|e| format!("service_time({}) panicked: {}", dem, e))?;
        if got != exp {
            return Err(format!("service_time({}) = {} but least t with sbf(t) >= demand is {}", dem, got, exp));
        }
        let got2 = guard(|| du(wrapped.service_time(s(dem))))
            .map_err(|e| format!("default service_time({}) failed: {}", dem, e))?;
        if got2 != exp {
            return Err(format!("default service_time({}) = {} but least t is {}", dem, got2, exp));
        }
        out.inner += 2;
    }
    // (e) equivalences
    if dl == p {
        let per = supply::Periodic::new(s(q), d(p));
        let con = supply::Constrained::new(s(q), d(p), d(p));
        for x in 0..=maxd {
            if per.provided_service(d(x)) != con.provided_service(d(x)) {
                return Err(format!("Constrained(Q,P,P) != Periodic(Q,P) at delta={}", x));
            }
        }
        for dem in 0..=maxdem {
            if per.service_time(s(dem)) != con.service_time(s(dem)) {
                return Err(format!("Constrained(Q,P,P) != Periodic(Q,P): service_time({})", dem));
            }
        }
        out.label("deadline=period");
    }
    if q == p {
        let ded = supply::Dedicated::new();
        for x in 0..=maxd {
            if vals[x as usize] != su(ded.provided_service(d(x))) || du(sup.service_time(s(x))) != du(ded.service_time(s(x))) {
                return Err(format!("budget = period differs from a dedicated processor at {}", x));
            }
        }
        out.label("budget=period");
    }
    out.nontrivial = q < p;
    out.label_if(q < dl && dl < p, "q<d<p");
    out.label_if(matches!(c.supply, SupplySpec::Constrained { .. }), "constrained");
    Ok(out)
}

// --- large parameters: algebraic laws only -------------------------------

#[derive(Clone, Debug, Serialize, Deserialize)]
pub struct LargeCase {
    pub supply: SupplySpec,
    pub deltas: Vec<u64>,
    pub demands: Vec<u64>,
}

fn large_strategy(_tier: Tier) -> BoxedStrategy<LargeCase> {
    (
        prop_oneof![
            4 => reservation_strategy(1_000_000),
            4 => reservation_strategy(300),
            1 => (1u64..1_000_000, any::<bool>()).prop_map(|(p, per)| if per { SupplySpec::Periodic { q: p, p } } else { SupplySpec::Constrained { q: p, d: p, p } }),
        ],
        proptest::collection::vec(0u64..8_000_000, 1..12),
        proptest::collection::vec(0u64..3_000_000, 1..12),
        proptest::collection::vec((0u64..8, 0u64..4, any::<bool>()), 1..8),
    )
        .prop_map(|(supply, mut deltas, mut demands, around)| {
            let (q, dl, p) = supply.qdp().unwrap();
            // points around multiples of the period and the breakpoints of the SBF
            for (k, e, sign) in around {
                let base = k * p;
                for b in [base, base + p - q, base + 2 * (p - q), base + dl - q, base + p - q + dl - q] {
                    deltas.push(if sign { b + e } else { b.saturating_sub(e) });
                }
                demands.push(if sign { k * q + e } else { (k * q).saturating_sub(e) });
            }
            LargeCase { supply, deltas, demands }
        })
        .boxed()
}

fn check_large(c: &LargeCase) -> CheckResult {
    let mut out = Outcome::default();
    let (q, dl, p) = c.supply.qdp().unwrap();
    let sup = c.supply.build();
    let sbf = |x: u64| -> Result<u64, String> {
        guard(|| su(sup.provided_service(d(x)))).map_err(|e| format!("provided_service({}) panicked: {}", x, e))
    };
    if sbf(0)? != 0 {
        return Err("provided_service(0) != 0".into());
    }
    for &x in &c.deltas {
        let a = sbf(x)?;
        let b = sbf(x + 1)?;
        if b < a || b > a + 1 {
            return Err(format!("provided_service({})={} -> ({})={}: not monotone/1-Lipschitz", x, a, x + 1, b));
        }
        // exactness through the closed form of the per-period decomposition for the window that
        // starts right after an early budget (attained worst case): count late budgets
        let exp = closed_form(q, dl, p, x);
        if a != exp {
            return Err(format!("provided_service({}) = {} but early-then-late placement delivers {}", x, a, exp));
        }
        if a > x {
            return Err(format!("provided_service({}) = {} exceeds the interval length", x, a));
        }
        out.inner += 1;
    }
    for &dem in &c.demands {
        let t = guard(|| du(sup.service_time(s(dem)))).map_err(|e| format!("service_time({}) panicked: {}", dem, e))?;
        if sbf(t)? < dem {
            return Err(format!("service_time({}) = {} but provided_service there is only {}", dem, t, sbf(t)?));
        }
        if t > 0 && sbf(t - 1)? >= dem {
            return Err(format!("service_time({}) = {} is not minimal: provided_service({}) = {}", dem, t, t - 1, sbf(t - 1)?));
        }
        if dem == 0 && t != 0 {
            return Err("service_time(0) != 0".into());
        }
        // default implementation
        let t2 = match &c.supply {
            SupplySpec::Periodic { q, p } => {
                let w = DefaultOnly(supply::Periodic::new(s(*q), d(*p)));
                guard(|| du(w.service_time(s(dem))))
            }
            SupplySpec::Constrained { q, d: dl, p } => {
                let w = DefaultOnly(supply::Constrained::new(s(*q), d(*dl), d(*p)));
                guard(|| du(w.service_time(s(dem))))
            }
            _ => unreachable!(),
        }
        .map_err(|e| format!("default service_time({}) failed: {}", dem, e))?;
        if t2 != t {
            return Err(format!("default service_time({}) = {} but specialised = {}", dem, t2, t));
        }
        out.inner += 1;
    }
    if q == p {
        // budget = period is a dedicated processor (values within the stated domain: the crate
        // documents that it relies on run-time overflow detection, so arguments within a period of
        // u64::MAX, where an intermediate sum overflows although the result would fit, are excluded)
        let ded = supply::Dedicated::new();
        for &x in c.deltas.iter().chain(c.demands.iter()).chain([1u64 << 40, (1u64 << 40) + p - 1, (1u64 << 40) / p * p].iter()) {
            let a = guard(|| (su(sup.provided_service(d(x))), du(sup.service_time(s(x))))).map_err(|e| format!("budget = period = {}: query at {} panicked: {}", p, x, e))?;
            if a != (su(ded.provided_service(d(x))), du(ded.service_time(s(x)))) {
                return Err(format!("budget = period = {} differs from a dedicated processor at {}: {:?}", p, x, a));
            }
        }
        out.label("budget=period");
    }
    if dl == p {
        let con = supply::Constrained::new(s(q), d(p), d(p));
        let per = supply::Periodic::new(s(q), d(p));
        for &x in &c.deltas {
            if con.provided_service(d(x)) != per.provided_service(d(x)) {
                return Err(format!("Constrained(Q,P,P) != Periodic(Q,P) at {}", x));
            }
        }
        for &x in &c.demands {
            if con.service_time(s(x)) != per.service_time(s(x)) {
                return Err(format!("Constrained(Q,P,P) != Periodic(Q,P): service_time({})", x));
            }
        }
    }
    // scale equivariance (large values): (sQ, sD, sP) provides s times the service at s-multiples
    for f in [65_537u64, 10_000_000] {
        if p <= 300 {
            let bigsup = match &c.supply {
                SupplySpec::Periodic { q, p } => SupplySpec::Periodic { q: q * f, p: p * f },
                SupplySpec::Constrained { q, d: dl, p } => SupplySpec::Constrained { q: q * f, d: dl * f, p: p * f },
                _ => unreachable!(),
            }
            .build();
            for &x in c.deltas.iter().take(6) {
                let x = x % (40 * p + 1);
                let (small, large, st_small, st_large) = guard(|| {
                    (
                        su(sup.provided_service(d(x))),
                        su(bigsup.provided_service(d(x * f))),
                        du(sup.service_time(s(x))),
                        du(bigsup.service_time(s(x * f))),
                    )
                })
                .map_err(|e| format!("scaled reservation panicked: {}", e))?;
                if large != small * f {
                    return Err(format!("reservation scaled by {}: provided_service({}) = {} but {} * provided_service({}) = {}", f, x * f, large, f, x, small * f));
                }
                if st_large != st_small * f {
                    return Err(format!("reservation scaled by {}: service_time({}) = {} but {} * service_time({}) = {}", f, x * f, st_large, f, x, st_small * f));
                }
            }
            out.label("scale-equivariance-checked");
        }
    }
    out.nontrivial = q < p && c.deltas.iter().any(|x| *x >= 2 * p);
    out.label_if(p > 1000, "large-period");
    Ok(out)
}

/// service delivered in [0, delta) when the timeline starts right after an
/// early budget and all later budgets are as late as the deadline allows:
/// budgets occupy [k*p + dl - q - q', k*p + dl - q') relative ... computed by
/// direct counting over periods (O(delta/p)).
fn closed_form(q: u64, dl: u64, p: u64, delta: u64) -> u64 {
    // timeline origin = q slots into period 0 (budget of period 0 was [0,q)).
    // budget of period k>=1 occupies absolute [k*p + dl - q, k*p + dl) => relative start k*p + dl - 2q... careful: relative = absolute - q
    let mut total = 0u64;
    let mut k = 1u64;
    loop {
        let start = k * p + dl - q - q; // relative to the origin (absolute - q)
        if start >= delta {
            break;
        }
        let end = start + q;
        total += end.min(delta) - start;
        // fast-forward over whole periods when far from the end
        if delta > end + 2 * p {
            let skip = (delta - end) / p - 1;
            total += skip * q;
            k += skip;
        }
        k += 1;
    }
    total
}

// --- exhaustive stage -------------------------------------------------------

fn exhaustive(tier: Tier, _seed: u64) -> ExtraResult {
    // literal enumeration of all placements of q slots within the first dl slots of each of
    // `periods` consecutive periods, all window positions: min service == provided_service
    let (pmax, periods) = tier.pick((4u64, 3usize), (5u64, 4usize));
    let mut r = ExtraResult { exhaustive: true, replay_subcheck: "small", ..Default::default() };
    for p in 1..=pmax {
        for dl in 1..=p {
            for q in 1..=dl {
                // all q-subsets of 0..dl as bit masks
                let subsets: Vec<u32> = (0u32..(1 << dl)).filter(|m| m.count_ones() as u64 == q).collect();
                let n = subsets.len();
                let len = periods * p as usize;
                let mut minserv = vec![u64::MAX; len + 1];
                let mut idx = vec![0usize; periods];
                loop {
                    let mut slots = vec![false; len];
                    for (k, i) in idx.iter().enumerate() {
                        for b in 0..dl {
                            if subsets[*i] >> b & 1 == 1 {
                                slots[k * p as usize + b as usize] = true;
                            }
                        }
                    }
                    for delta in 0..=len {
                        let mw = min_window(&slots, delta);
                        if mw < minserv[delta] {
                            minserv[delta] = mw;
                        }
                    }
                    r.evaluations += 1;
                    // next combination
                    let mut k = 0;
                    loop {
                        if k == periods {
                            break;
                        }
                        idx[k] += 1;
                        if idx[k] < n {
                            break;
                        }
                        idx[k] = 0;
                        k += 1;
                    }
                    if k == periods {
                        break;
                    }
                }
                // windows of length up to (periods-1)*p see enough context on both sides
                let con = supply::Constrained::new(s(q), d(dl), d(p));
                let per = supply::Periodic::new(s(q), d(p));
                for delta in 0..=((periods - 2) * p as usize) {
                    let got = su(con.provided_service(d(delta as u64)));
                    if got != minserv[delta] {
                        r.failure = Some((
                            serde_json::to_value(SmallCase { supply: SupplySpec::Constrained { q, d: dl, p }, placements: vec![] }).unwrap(),
                            format!("Constrained({},{},{}).provided_service({}) = {} but the exhaustive minimum over all placements is {}", q, dl, p, delta, got, minserv[delta]),
                        ));
                        return r;
                    }
                    if dl == p {
                        let got = su(per.provided_service(d(delta as u64)));
                        if got != minserv[delta] {
                            r.failure = Some((
                                serde_json::to_value(SmallCase { supply: SupplySpec::Periodic { q, p }, placements: vec![] }).unwrap(),
                                format!("Periodic({},{}).provided_service({}) = {} but the exhaustive minimum over all placements is {}", q, p, delta, got, minserv[delta]),
                            ));
                            return r;
                        }
                    }
                }
                if q < p {
                    r.nontrivial += 1;
                }
            }
        }
    }
    r.note = format!(
        "literal enumeration of all budget placements for every (Q,D,P) with P <= {} over {} consecutive periods, all window positions, window lengths up to {} periods",
        pmax,
        periods,
        periods - 2
    );
    r
}

pub fn def() -> PropertyDef {
    PropertyDef {
        id: "C09",
        rule: "generated: reservation (Q,D,P) with P<=40 (quick) / 60 (thorough) plus budget placements (early/late/subset/at-offset per period, phase), all window lengths <= 6P and all demands; a second stratum with P up to 10^6 checks the algebraic laws at generated points around the SBF's breakpoints. Oracle: minimum service over placements computed from (Q,D,P) alone (per-period decomposition), explicit placement bit-vectors, linear-scan inverse. Non-trivial: Q < P (small stratum) resp. Q < P and some window spans >= 2 periods (large stratum); distinct by case JSON. Extra stage: exhaustive enumeration of all placements for tiny P.".into(),
        assumptions: vec![
            "budget >= 1, budget <= deadline <= period (documented constructor contract)".into(),
            "a reservation delivers exactly its budget per period (more supply can only help)".into(),
        ],
        subchecks: vec![
            subcheck("small", (300, 6000), small_strategy, check_small),
            subcheck("large", (4000, 100_000), large_strategy, check_large),
        ],
        extra: Some(Box::new(exhaustive)),
    }
}

//! C06 — FP/EDF/FIFO bounds equal exhaustive evaluation of their defining equations.

use proptest::prelude::*;
use response_time_analysis::demand::RequestBound;
use serde::{Deserialize, Serialize};

use crate::arr::*;
use crate::engine::*;
use crate::supply_ref::{d, su};
use crate::tasks::*;

#[derive(Clone, Debug, Serialize, Deserialize)]
pub enum LimitMode {
    Huge,
    AtL,
    BelowL,
    AtMaxAf,
    BelowMaxAf,
    Absolute(u64),
}

#[derive(Clone, Debug, Serialize, Deserialize)]
pub struct Case {
    pub tasks: Vec<TaskSpec>,
    pub tua: usize,
    pub analysis: Analysis,
    /// blocking bound handed to the FP analyses that take one (arbitrary here: C06 is about the search)
    pub blocking: u64,
    pub limit: LimitMode,
    pub wrap: Wrap,
    /// added to the tasks' floating non-preemptive region lengths: in the equations these are free
    /// parameters of the interfering tasks (they may exceed the WCET, e.g. for multiframe tasks)
    #[serde(default)]
    pub np_boost: Vec<u64>,
}

pub fn analysis_strategy() -> BoxedStrategy<Analysis> {
    proptest::sample::select(ALL_ANALYSES.to_vec()).boxed()
}

pub fn wrap_strategy() -> BoxedStrategy<Wrap> {
    prop_oneof![Just(Wrap::Plain), Just(Wrap::Boxed), Just(Wrap::Refs)].boxed()
}

fn strategy(tier: Tier) -> BoxedStrategy<Case> {
    let g = TaskGen {
        arr: ArrGen { tmax: tier.pick(60, 150), never: true, plateau_end: true, plain_curves: true, derived: true, acp: false, loose: true, poisson: false, depth: 1 },
        cmax: 9,
        nmax: 4,
        dfac: 3,
    };
    (
        // a third of the task sets heavily loaded (long busy windows, maxima at offsets A > 0)
        prop_oneof![2 => taskset_strategy(g), 1 => taskset_strategy_u(g, 850, 1020)],
        // index 4 = the task that suffers most interference (resolved in the map below)
        prop_oneof![3 => 0usize..4, 1 => Just(4usize)],
        analysis_strategy(),
        prop_oneof![2 => Just(0u64), 3 => 0u64..12],
        prop_oneof![
            3 => Just(LimitMode::Huge),
            2 => Just(LimitMode::AtL),
            2 => Just(LimitMode::BelowL),
            2 => Just(LimitMode::AtMaxAf),
            2 => Just(LimitMode::BelowMaxAf),
            2 => (1u64..400).prop_map(LimitMode::Absolute),
        ],
        wrap_strategy(),
        prop_oneof![3 => Just(vec![]), 1 => proptest::collection::vec(prop_oneof![1 => Just(0u64), 2 => 1u64..10], 4)],
    )
        .prop_map(|(tasks, tua, analysis, blocking, limit, wrap, np_boost)| {
            let n = tasks.len();
            let tua = if tua == 4 {
                (0..n).max_by_key(|i| if analysis.is_edf() { (tasks[*i].deadline, *i) } else { (tasks[*i].prio as u64, *i) }).unwrap_or(0)
            } else {
                tua % n
            };
            Case { tasks, tua, analysis, blocking, limit, wrap, np_boost }
        })
        .boxed()
}

/// tabulated RBFs (black boxes): tab[i][delta]
pub struct Tables {
    pub tab: Vec<Vec<u64>>,
}

pub fn tabulate(b: &Built, upto: u64) -> Result<Tables, String> {
    guard(|| Tables {
        tab: b.rbfs.iter().map(|r| (0..=upto).map(|x| su(r.service_needed(d(x)))).collect()).collect(),
    })
}

/// least r >= 0 with r >= f(max(r,1)) within the limit (dedicated processor)
fn lfp(limit: u64, f: impl Fn(u64) -> u64) -> Option<u64> {
    if f(1) == 0 {
        return Some(0);
    }
    (1..=limit).find(|x| *x >= f(*x))
}

pub struct RefOut {
    pub res: Res,
    pub l: Option<u64>,
    pub max_af: u64,
    pub argmax_a: u64,
    pub offsets_scanned: u64,
}

/// Naive evaluation of the published equations: L by linear scan, every offset A in [0, L),
/// AF by linear scan, maximum.
pub fn reference(ts: &[TaskSpec], t: &Tables, an: Analysis, tua: usize, blocking: u64, limit: u64) -> RefOut {
    let n = ts.len();
    let rbf = |i: usize, x: u64| t.tab[i][x as usize];
    let div = Res::Diverged { offset: 0, limit };
    let mut out = RefOut { res: div.clone(), l: None, max_af: 0, argmax_a: 0, offsets_scanned: 0 };
    let me = &ts[tua];
    if an == Analysis::Fifo {
        let total = |x: u64| (0..n).map(|i| rbf(i, x)).sum::<u64>();
        let l = match lfp(limit, total) {
            Some(l) => l,
            None => return out,
        };
        out.l = Some(l);
        let mut best = 0;
        for a in 0..l {
            let v = total(a + 1).saturating_sub(a);
            if v > best {
                best = v;
                out.argmax_a = a;
            }
            out.offsets_scanned += 1;
        }
        out.res = Res::Ok(best);
        return out;
    }
    let others: Vec<usize> = if an.is_fp() {
        (0..n).filter(|i| *i != tua && ts[*i].prio <= me.prio).collect()
    } else {
        (0..n).filter(|i| *i != tua).collect()
    };
    let has_blocking_param = matches!(an, Analysis::FpNp | Analysis::FpLp | Analysis::FpFl);
    let b_fp = if has_blocking_param { blocking } else { 0 };
    // busy-window bound
    let l = match lfp(limit, |x| b_fp + others.iter().map(|i| rbf(*i, x)).sum::<u64>() + rbf(tua, x)) {
        Some(l) => l,
        None => return out,
    };
    out.l = Some(l);
    let rem = match an {
        Analysis::FpNp | Analysis::EdfNp => me.wcet - 1,
        Analysis::FpLp | Analysis::EdfLp => me.last_seg() - 1,
        _ => 0,
    };
    let mut best = 0u64;
    for a in 0..l {
        out.offsets_scanned += 1;
        let own = rbf(tua, a + 1).saturating_sub(rem);
        let blocking_a = if an.is_edf() && an != Analysis::EdfP {
            others
                .iter()
                .filter(|i| ts[**i].deadline > me.deadline + a && rbf(**i, 1) > 0)
                .map(|i| an.np_len(&ts[*i]).saturating_sub(1))
                .max()
                .unwrap_or(0)
        } else {
            b_fp
        };
        let af = if an.is_fp() {
            lfp(limit, |x| blocking_a + own + others.iter().map(|i| rbf(*i, x)).sum::<u64>())
        } else {
            lfp(limit, |x| {
                blocking_a
                    + own
                    + others
                        .iter()
                        .map(|i| rbf(*i, x.min((a + 1 + me.deadline).saturating_sub(ts[*i].deadline))))
                        .sum::<u64>()
            })
        };
        let af = match af {
            Some(af) => af,
            None => {
                out.res = div;
                return out;
            }
        };
        out.max_af = out.max_af.max(af);
        let f = af.saturating_sub(a) + rem;
        if f > best {
            best = f;
            out.argmax_a = a;
        }
    }
    out.res = Res::Ok(best);
    out
}

pub const TMAX: u64 = 2500;

fn check(c: &Case) -> CheckResult {
    let mut out = Outcome::default();
    let mut boosted = c.tasks.clone();
    for (t, b) in boosted.iter_mut().zip(c.np_boost.iter()) {
        t.max_np += b;
    }
    let ts = &boosted;
    // the analysed task releases at least one job; segment parameters within the WCET
    let b = guard(|| build_tasks(ts)).map_err(|e| format!("constructing the task set panicked: {}", e))?;
    let t = tabulate(&b, TMAX + 2).map_err(|e| format!("tabulating the RBFs panicked: {}", e))?;
    if t.tab[c.tua][1] == 0 {
        out.label("tua-never-arrives(skipped)");
        return Ok(out);
    }
    let huge = reference(ts, &t, c.analysis, c.tua, c.blocking, TMAX);
    let limit = match (&c.limit, huge.l) {
        (LimitMode::Huge, _) => TMAX,
        (LimitMode::Absolute(x), _) => *x,
        (LimitMode::AtL, Some(l)) => l,
        (LimitMode::BelowL, Some(l)) => l.saturating_sub(1),
        (LimitMode::AtMaxAf, Some(_)) if huge.res.ok().is_some() => huge.max_af,
        (LimitMode::BelowMaxAf, Some(_)) if huge.res.ok().is_some() => huge.max_af.saturating_sub(1),
        _ => 500,
    }
    .clamp(1, TMAX);
    let exp = if limit == TMAX { huge } else { reference(ts, &t, c.analysis, c.tua, c.blocking, limit) };
    let blocking = if c.analysis.is_fp() { Some(c.blocking) } else { None };
    let got = guard(|| run_analysis(ts, &b, c.analysis, c.tua, limit, blocking, c.wrap))
        .map_err(|e| format!("{} panicked: {} (limit {})", c.analysis.name(), e, limit))?;
    let got = Res::from(got);
    // Ok values must be identical; Err iff Err (the error's payload is pinned by C08, not claimed here)
    let same = match (&got, &exp.res) {
        (Res::Ok(a), Res::Ok(b)) => a == b,
        (Res::Ok(_), _) | (_, Res::Ok(_)) => false,
        _ => true,
    };
    if !same {
        return Err(format!(
            "{} returned {:?} but naive evaluation of its equations (L = {:?}, every offset in [0,L), limit {}) gives {:?} (argmax offset {})",
            c.analysis.name(),
            got,
            exp.l,
            limit,
            exp.res,
            exp.argmax_a
        ));
    }
    out.inner = exp.offsets_scanned;
    let interference = exp.l.map(|l| l > ts[c.tua].wcet).unwrap_or(true);
    out.nontrivial = exp.res.is_err() || interference;
    out.label_if(exp.res.is_err(), "err");
    out.label_if(exp.res.ok().is_some() && exp.argmax_a > 0, "argmax-offset>0");
    out.label_if(exp.l == Some(limit), "limit=L");
    out.label_if(exp.res.ok().is_some() && exp.max_af == limit, "limit=maxAF");
    out.label_if(exp.l.map(|l| t.tab[c.tua][l as usize] >= 2 * ts[c.tua].wcet).unwrap_or(false), ">=2-jobs-of-tua-in-L");
    out.label_if(ts[c.tua].arr.has_jitter() || ts[c.tua].arr.has_burst(), "tua-jitter-or-burst");
    out.label_if(c.np_boost.iter().any(|b| *b > 0) && matches!(c.analysis, Analysis::EdfFl), "np-region-longer-than-wcet");
    out.label(c.analysis.name());
    Ok(out)
}

pub fn decode(d: &mut crate::dec::Dec) -> Case {
    use crate::dec::*;
    let g = DecArr { tmax: 60, never: true, derived: true, acp: false };
    let tasks = dec_tasks(d, g, 4, 9);
    let tua = d.pick(tasks.len());
    let analysis = ALL_ANALYSES[d.pick(9)];
    let blocking = d.range(0, 11);
    let limit = match d.pick(6) {
        0 => LimitMode::Huge,
        1 => LimitMode::AtL,
        2 => LimitMode::BelowL,
        3 => LimitMode::AtMaxAf,
        4 => LimitMode::BelowMaxAf,
        _ => LimitMode::Absolute(d.range(1, 400)),
    };
    let wrap = [Wrap::Plain, Wrap::Boxed, Wrap::Refs][d.pick(3)];
    let np_boost = if d.pick(4) == 0 { d.vec(4, 4, |d| d.range(0, 9)) } else { vec![] };
    Case { tasks, tua, analysis, blocking, limit, wrap, np_boost }
}

// --- scale equivariance (behaviour at large values) -----------------------------------------

#[derive(Clone, Debug, Serialize, Deserialize)]
pub struct ScaleCase {
    pub tasks: Vec<TaskSpec>,
    pub tua: usize,
    pub analysis: Analysis,
    pub blocking: u64,
    pub limit: u64,
    pub factor: u64,
}

fn scale_strategy(tier: Tier) -> BoxedStrategy<ScaleCase> {
    let g = TaskGen {
        arr: ArrGen { tmax: tier.pick(60, 150), never: true, plateau_end: true, plain_curves: true, derived: true, acp: false, loose: true, poisson: false, depth: 1 },
        cmax: 9,
        nmax: 4,
        dfac: 3,
    };
    (
        taskset_strategy(g),
        0usize..4,
        // the analyses without an epsilon-sized constant in their equations
        proptest::sample::select(vec![Analysis::FpP, Analysis::FpFl, Analysis::EdfP, Analysis::Fifo]),
        0u64..10,
        prop_oneof![2 => Just(3000u64), 1 => 1u64..300],
        proptest::sample::select(vec![1_000u64, 65_537, 10_000_000, 4_294_967_311]),
    )
        .prop_map(|(tasks, tua, analysis, blocking, limit, factor)| {
            let tua = tua % tasks.len();
            ScaleCase { tasks, tua, analysis, blocking, limit, factor }
        })
        .boxed()
}

/// Multiplying every time value (periods, jitters, delta-min entries, WCETs, deadlines, blocking,
/// limit) by s multiplies the defining equations' least solutions by s, hence the bound: the naive
/// evaluation cannot be run at 10^10, but this consequence of it can be checked there.
fn check_scale(c: &ScaleCase) -> CheckResult {
    let mut out = Outcome::default();
    let f = c.factor;
    let mut big = c.tasks.clone();
    for t in big.iter_mut() {
        crate::ros::stretch(&mut t.arr, f);
        t.wcet *= f;
        t.deadline *= f;
        for sg in t.segs.iter_mut() {
            *sg *= f;
        }
        t.max_np *= f;
    }
    let blocking = if c.analysis == Analysis::FpFl { Some(c.blocking) } else { None };
    let small = guard(|| {
        let b = build_tasks(&c.tasks);
        Res::from(run_analysis(&c.tasks, &b, c.analysis, c.tua, c.limit, blocking, Wrap::Plain))
    });
    let large = guard(|| {
        let b = build_tasks(&big);
        Res::from(run_analysis(&big, &b, c.analysis, c.tua, c.limit * f, blocking.map(|x| x * f), Wrap::Plain))
    });
    let (small, large) = match (small, large) {
        (Ok(a), Ok(b)) => (a, b),
        (Ok(_), Err(e)) => return Err(format!("{} panicked on the system scaled by {}: {}", c.analysis.name(), f, e)),
        _ => {
            out.label("analysis-panicked(skipped)");
            return Ok(out);
        }
    };
    let ok = match (&small, &large) {
        (Res::Ok(a), Res::Ok(b)) => *b == a * f,
        (Res::Ok(_), _) | (_, Res::Ok(_)) => false,
        _ => true,
    };
    if !ok {
        return Err(format!(
            "{}: the unscaled system gives {:?} (limit {}), the system with every time value multiplied by {} gives {:?} (limit {})",
            c.analysis.name(),
            small,
            c.limit,
            f,
            large,
            c.limit * f
        ));
    }
    out.inner = 2;
    out.nontrivial = small.ok().map(|r| r > c.tasks[c.tua].wcet).unwrap_or(false) && f >= 10_000_000;
    out.label_if(small.is_err(), "err");
    out.label_if(f > u32::MAX as u64, "factor>2^32");
    out.label(c.analysis.name());
    Ok(out)
}

/// exhaustive stage: every pair of sporadic tasks from a tiny parameter grid, every analysis, both
/// choices of the analysed task, limits huge / = L / L-1
// --- slow convergence (fixed points that the iteration approaches in > 10^4 steps) -----------

#[derive(Clone, Debug, Serialize, Deserialize)]
pub enum SlowBase {
    /// unit-cost tasks with periods 2, 4, ..., 2^k: utilisation 1 - 2^-k
    Pow2(u32),
    /// unit-cost tasks with periods 2, 3, 7, 43: utilisation 1 - 1/1806
    Sylvester,
}

#[derive(Clone, Debug, Serialize, Deserialize)]
pub struct SlowCase {
    pub base: SlowBase,
    /// costs and periods of the light tasks are multiplied by this
    pub mult: u64,
    /// release jitter of the light tasks, in per-mille of their period
    pub jitter_pm: Vec<u64>,
    /// cost of the one heavy task (period 10^7)
    pub heavy: u64,
    pub limit: LimitMode,
    pub wrap: Wrap,
}

fn slow_strategy(_tier: Tier) -> BoxedStrategy<SlowCase> {
    (
        prop_oneof![3 => (11u32..=14).prop_map(SlowBase::Pow2), 1 => Just(SlowBase::Sylvester)],
        1u64..=3,
        proptest::collection::vec(prop_oneof![3 => Just(0u64), 2 => 0u64..=1000], 14),
        0u64..1000,
        prop_oneof![3 => Just(LimitMode::Huge), 2 => Just(LimitMode::AtL), 2 => Just(LimitMode::BelowL)],
        wrap_strategy(),
    )
        .prop_map(|(base, mult, jitter_pm, h, limit, wrap)| {
            // heavy cost chosen so that L stays below about 7 * 10^5
            let heavy = match base {
                SlowBase::Pow2(k) => 3 + h * ((600_000u64 >> k).max(8)) / 1000,
                SlowBase::Sylvester => 150 + h * 220 / 1000,
            };
            SlowCase { base, mult, jitter_pm, heavy, limit, wrap }
        })
        .boxed()
}

pub const SLOW_CAP: u64 = 1_500_000;

fn check_slow(c: &SlowCase) -> CheckResult {
    let mut out = Outcome::default();
    let periods: Vec<u64> = match c.base {
        SlowBase::Pow2(k) => (1..=k.clamp(1, 14)).map(|i| 1u64 << i).collect(),
        SlowBase::Sylvester => vec![2, 3, 7, 43],
    };
    let m = c.mult.clamp(1, 3);
    let mk = |arr: ArrSpec, wcet: u64| TaskSpec { arr, wcet, prio: 0, deadline: 1, segs: vec![wcet], max_np: 1 };
    let mut ts: Vec<TaskSpec> = periods
        .iter()
        .enumerate()
        .map(|(i, p)| {
            let t = p * m;
            let j = t * c.jitter_pm.get(i).copied().unwrap_or(0).min(1000) / 1000;
            mk(if j == 0 { ArrSpec::Periodic { t } } else { ArrSpec::Sporadic { t, j } }, m)
        })
        .collect();
    ts.push(mk(ArrSpec::Sporadic { t: 10_000_000, j: 0 }, c.heavy.max(1)));
    let b = guard(|| build_tasks(&ts)).map_err(|e| format!("constructing the task set panicked: {}", e))?;
    let total = |x: u64| b.rbfs.iter().map(|r| su(r.service_needed(d(x)))).sum::<u64>();
    // naive evaluation: L by linear scan, every offset in [0, L)
    let (l_huge, iterations) = guard_with_budget(u64::MAX, || {
        let l = (1..=SLOW_CAP).find(|x| *x >= total(*x));
        // how many steps the standard iteration x <- total(x) from 1 needs (for the non-triviality rule only)
        let mut x = 1u64;
        let mut it = 0u64;
        while x <= SLOW_CAP {
            let y = total(x);
            if y <= x {
                break;
            }
            x = y;
            it += 1;
        }
        (l, it)
    })
    .map_err(|e| format!("evaluating the RBFs panicked: {}", e))?;
    let limit = match (&c.limit, l_huge) {
        (LimitMode::AtL, Some(l)) => l,
        (LimitMode::BelowL, Some(l)) => l - 1,
        _ => SLOW_CAP,
    };
    let exp: Option<u64> = match l_huge {
        Some(l) if l <= limit => guard_with_budget(u64::MAX, || (0..l).map(|a| total(a + 1).saturating_sub(a)).max().unwrap_or(0)).ok(),
        _ => None,
    };
    let got = guard_with_budget(u64::MAX, || run_analysis(&ts, &b, Analysis::Fifo, 0, limit, None, c.wrap))
        .map_err(|e| format!("fifo panicked: {} (limit {})", e, limit))?;
    let got = Res::from(got);
    let same = match (&got, exp) {
        (Res::Ok(a), Some(b)) => *a == b,
        (Res::Ok(_), None) | (_, Some(_)) => false,
        _ => true,
    };
    if !same {
        return Err(format!(
            "fifo returned {:?} but naive evaluation (L = {:?} by linear scan, every offset in [0,L), limit {}) gives {:?}; the iteration from 1 needs {} steps",
            got, l_huge, limit, exp, iterations
        ));
    }
    out.inner = l_huge.unwrap_or(SLOW_CAP);
    out.nontrivial = iterations > 10_000;
    out.label_if(iterations > 10_000, "iteration-steps>10^4");
    out.label_if(iterations > 30_000, "iteration-steps>3*10^4");
    out.label_if(exp.is_none(), "err");
    out.label_if(l_huge == Some(limit), "limit=L");
    Ok(out)
}

fn exhaustive(tier: Tier, _seed: u64) -> ExtraResult {
    let mut r = ExtraResult { exhaustive: true, replay_subcheck: "equations", ..Default::default() };
    // (period, jitter, wcet, deadline, last-segment selector)
    let (ts_, js, cs, ds): (Vec<u64>, Vec<u64>, Vec<u64>, Vec<u64>) = tier.pick(
        (vec![2, 3, 5], vec![0, 1, 4], vec![1, 2], vec![1, 3, 6]),
        (vec![2, 3, 4, 5, 7], vec![0, 1, 2, 4, 6, 9], vec![1, 2, 3], vec![1, 2, 3, 5, 8]),
    );
    let mut singles: Vec<TaskSpec> = vec![];
    for &t in &ts_ {
        for &j in &js {
            for &c in &cs {
                for &dl in &ds {
                    singles.push(TaskSpec {
                        arr: ArrSpec::Sporadic { t, j },
                        wcet: c,
                        prio: 0,
                        deadline: dl,
                        segs: if c >= 2 { vec![c - 1, 1] } else { vec![c] },
                        max_np: c.min(2),
                    });
                }
            }
        }
    }
    // 16 worker threads, each taking every 16th first task
    let results: Vec<(u64, u64, Option<(serde_json::Value, String)>)> = std::thread::scope(|sc| {
        let handles: Vec<_> = (0..16usize)
            .map(|w| {
                let singles = &singles;
                sc.spawn(move || {
                    let mut evals = 0u64;
                    let mut nontrivial = 0u64;
                    for (ia, a) in singles.iter().enumerate() {
                        if ia % 16 != w {
                            continue;
                        }
                        for b in singles {
                            for prio_b in [0u32, 1] {
                                let mut t1 = a.clone();
                                let mut t2 = b.clone();
                                t1.prio = 1;
                                t2.prio = prio_b;
                                let tasks = vec![t1, t2];
                                for analysis in ALL_ANALYSES {
                                    if prio_b == 1 && !analysis.is_fp() {
                                        continue;
                                    }
                                    for limit in [LimitMode::Huge, LimitMode::AtL, LimitMode::BelowL] {
                                        let c = Case { tasks: tasks.clone(), tua: 0, analysis, blocking: (a.wcet + b.deadline) % 3, limit, wrap: Wrap::Plain, np_boost: vec![] };
                                        evals += 1;
                                        match run_check(&check, &c) {
                                            Ok(o) => {
                                                if o.nontrivial {
                                                    nontrivial += 1;
                                                }
                                            }
                                            Err(msg) => return (evals, nontrivial, Some((serde_json::to_value(&c).unwrap(), msg))),
                                        }
                                    }
                                }
                            }
                        }
                    }
                    (evals, nontrivial, None)
                })
            })
            .collect();
        handles.into_iter().map(|h| h.join().expect("worker")).collect()
    });
    for (e, n, f) in results {
        r.evaluations += e;
        r.nontrivial += n;
        if r.failure.is_none() {
            r.failure = f;
        }
    }
    if r.failure.is_some() {
        return r;
    }
    r.note = format!(
        "every ordered pair of sporadic tasks with T in {:?}, J in {:?}, WCET in {:?}, D in {:?} (two segments, last = 1), lower or equal priority of the second task, all nine analyses, limits huge / = L / L-1: crate vs. naive evaluation over every offset",
        ts_, js, cs, ds
    );
    r
}

pub fn def() -> PropertyDef {
    PropertyDef {
        id: "C06",
        rule: "generated: task sets of 1-4 tasks (Periodic, Sporadic with J up to 4T, plain and extrapolating bursty delta-min curves incl. plateaus, jittered / propagated / summed models; T <= 60 quick / 150 thorough, WCET <= 9, equal priorities allowed, relative deadlines up to 3T, segment vectors, floating region lengths - in a quarter of the cases also longer than the WCET, they are free parameters of the equations -), the analysed task, one of the nine analyses, an arbitrary blocking bound, the way the RBFs are wrapped (plain / boxed / references; FIFO: Slice / Aggregate), and a limit mode (huge, = L, L-1, = max AF, max AF - 1, absolute). Oracle: the RBFs are tabulated as black boxes from the very objects handed to the analysis; L = least x in [1,limit] with x >= total(x); for EVERY offset A in [0,L) AF = least x with x >= rhs_A(x) by linear scan; result = max_A (AF -. A) + remaining cost; Err{offset 0, limit} iff some least solution does not exist within the limit. Exact equality of Ok/Err and value. Second sub-check (large values, where the naive scan cannot run): for the analyses whose equations contain no epsilon-sized constant (preemptive FP, floating FP with explicit blocking, preemptive EDF, FIFO) every time value incl. blocking and limit is multiplied by 10^3 / 65537 / 10^7 / 2^32+15 and the result must scale by exactly that factor (Err iff Err). Third sub-check (slow convergence): FIFO over unit-cost tasks with periods 2,4,..,2^k (k = 11..14) or 2,3,7,43 (utilisation 1 - 2^-k resp. 1 - 1/1806; costs and periods times 1..3; generated jitter), plus one heavy task, so that L is 10^4..7*10^5 and the standard iteration from 1 needs 10^3..5*10^4 steps; limits huge / = L / L-1; oracle: L by linear scan over the RBF objects, max over EVERY offset in [0,L) of total(A+1) - A; non-trivial there: the iteration needs more than 10^4 steps. Non-trivial: Err, or L larger than the analysed task's WCET (interference or blocking present, so non-step offsets are scanned). Distinct by case JSON.".into(),
        assumptions: vec![
            "the analysed task releases at least one job (number_arrivals(1) >= 1); limits >= 1".into(),
            "last segment <= WCET, segments >= 1".into(),
            "RBFs are black boxes here (steps/values are C10/C11/C16's business); direct ArrivalCurvePrefix models are excluded (known finding C11/acp-steps-leading-zero)".into(),
        ],
        subchecks: vec![
            subcheck("equations", (5000, 60_000), strategy, check).with_decoder(decode, check),
            subcheck("scale-equivariance", (1500, 50_000), scale_strategy, check_scale),
            subcheck("slow-convergence", (40, 1500), slow_strategy, check_slow),
        ],
        extra: Some(Box::new(exhaustive)),
    }
}

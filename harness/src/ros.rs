//! ROS 2 executor workloads: specs, strategies and an independent
//! slot-by-slot simulator of the single-threaded executor under a
//! reservation.
//!
//! Executor model (as stated in the properties): the executor only runs in
//! slots in which the reservation supplies service; callbacks are
//! non-preemptive (only the reservation pauses them); whenever the executor
//! is free it (1) runs the highest-priority timer with a pending instance,
//! else (2) if its ready set is empty, polls: the ready set becomes the set
//! of polled callbacks with a pending instance (one entry per callback),
//! and (3) runs the highest-priority member of the ready set (oldest
//! instance of that callback).  Completion of a chain member activates its
//! successor at the completion instant.

use proptest::prelude::*;
use serde::{Deserialize, Serialize};

use crate::arr::*;
use crate::cost::*;
use crate::supply_ref::*;

#[derive(Clone, Copy, Debug, Serialize, Deserialize, PartialEq, Eq, Hash)]
pub enum CbKind {
    Timer,
    Polled,
}

#[derive(Clone, Copy, Debug, Serialize, Deserialize, PartialEq, Eq, Hash)]
pub enum Declared {
    /// declare the true kind / priority
    Known,
    /// declare a polled callback as PolledUnknownPrio
    Unknown,
}

#[derive(Clone, Debug, Serialize, Deserialize, PartialEq, Eq, Hash)]
pub struct CbSpec {
    pub arr: ArrSpec,
    pub cost: CostSpec,
    pub kind: CbKind,
    /// numerically smaller = higher priority (among timers resp. among polled callbacks)
    pub prio: i32,
    pub declared: Declared,
}

#[derive(Clone, Debug, Serialize, Deserialize, PartialEq, Eq, Hash)]
pub struct Workload {
    pub cbs: Vec<CbSpec>,
    pub supply: SupplySpec,
}

/// job k (0-based) of a callback may cost at most this much (reference semantics of the cost model)
pub fn job_cost_cap(c: &CostSpec, k: usize) -> u64 {
    match c {
        CostSpec::Scalar { c } => *c,
        CostSpec::Multiframe { costs } => costs[k % costs.len()],
        _ => panic!("harness bug: only scalar / multiframe costs are simulated"),
    }
}

pub struct RosSimIn<'a> {
    pub kinds: &'a [CbKind],
    pub prios: &'a [i32],
    /// external arrival times per callback (sorted); chain members other than the first have none
    pub arrivals: &'a [Vec<u64>],
    /// execution time of the k-th started instance per callback (cyclic)
    pub exec: &'a [Vec<u64>],
    /// successor in a processing chain
    pub next: &'a [Option<usize>],
    /// service slots
    pub supply: &'a [bool],
}

#[derive(Default, Clone, Debug)]
pub struct RosSimOut {
    /// per callback: (arrival, response) of completed instances
    pub done: Vec<Vec<(u64, u64)>>,
    /// per callback: (arrival, age) of instances pending / running at the end
    pub unfinished: Vec<Vec<(u64, u64)>>,
    /// for chain tails: (source arrival, end-to-end response)
    pub chain_done: Vec<(u64, u64)>,
    /// how many instances were started after waiting through at least one polling point
    pub waited_polls: u64,
}

pub fn ros_simulate(si: &RosSimIn) -> RosSimOut {
    let n = si.kinds.len();
    let h = si.supply.len() as u64;
    // pending instances per callback: (arrival, source arrival)
    let mut pending: Vec<std::collections::VecDeque<(u64, u64)>> = vec![Default::default(); n];
    let mut next_ext = vec![0usize; n];
    let mut started = vec![0usize; n];
    let mut ready: Vec<usize> = vec![];
    let mut running: Option<(usize, u64, u64, u64)> = None; // (cb, arrival, source arrival, remaining)
    let mut out = RosSimOut { done: vec![vec![]; n], unfinished: vec![vec![]; n], ..Default::default() };
    let is_tail: Vec<bool> = (0..n).map(|i| si.next[i].is_none() && si.next.iter().any(|x| *x == Some(i))).collect();
    let mut polls_since: Vec<u64> = vec![0; n]; // polling points since the oldest pending instance arrived
    for t in 0..h {
        // external arrivals at t
        for i in 0..n {
            while next_ext[i] < si.arrivals[i].len() && si.arrivals[i][next_ext[i]] <= t {
                let a = si.arrivals[i][next_ext[i]];
                pending[i].push_back((a, a));
                next_ext[i] += 1;
            }
        }
        if !si.supply[t as usize] {
            continue;
        }
        if running.is_none() {
            let mut sel: Option<usize> = None;
            for i in 0..n {
                if si.kinds[i] == CbKind::Timer && !pending[i].is_empty() && sel.map(|s| si.prios[i] < si.prios[s]).unwrap_or(true) {
                    sel = Some(i);
                }
            }
            if sel.is_none() {
                if ready.is_empty() {
                    for i in 0..n {
                        if si.kinds[i] == CbKind::Polled && !pending[i].is_empty() {
                            ready.push(i);
                        }
                    }
                    if !ready.is_empty() {
                        for i in 0..n {
                            if !pending[i].is_empty() {
                                polls_since[i] += 1;
                            }
                        }
                    }
                }
                if !ready.is_empty() {
                    let (k, _) = ready.iter().enumerate().min_by_key(|(k, i)| (si.prios[**i], *k)).unwrap();
                    sel = Some(ready.remove(k));
                }
            }
            if let Some(i) = sel {
                let (a, src) = pending[i].pop_front().unwrap();
                let e = if si.exec[i].is_empty() { 1 } else { si.exec[i][started[i] % si.exec[i].len()] };
                started[i] += 1;
                if si.kinds[i] == CbKind::Polled && polls_since[i] >= 2 {
                    out.waited_polls += 1;
                }
                if pending[i].is_empty() {
                    polls_since[i] = 0;
                }
                running = Some((i, a, src, e.max(1)));
            }
        }
        if let Some((i, a, src, rem)) = running {
            if rem <= 1 {
                out.done[i].push((a, t + 1 - a));
                if let Some(j) = si.next[i] {
                    pending[j].push_back((t + 1, src));
                } else if is_tail[i] {
                    out.chain_done.push((src, t + 1 - src));
                }
                running = None;
            } else {
                running = Some((i, a, src, rem - 1));
            }
        }
    }
    if let Some((i, a, _, _)) = running {
        out.unfinished[i].push((a, h - a));
    }
    for i in 0..n {
        for (a, _) in &pending[i] {
            if *a < h {
                out.unfinished[i].push((*a, h - *a));
            }
        }
    }
    out
}

// ---------------------------------------------------------------------------
// strategies

#[derive(Clone, Copy, Debug)]
pub struct RosGen {
    pub arr: ArrGen,
    pub cmax: u64,
    pub nmax: usize,
    pub pmax: u64,
    pub multiframe: bool,
}

pub fn cb_strategy(g: RosGen) -> BoxedStrategy<CbSpec> {
    let cost = if g.multiframe {
        prop_oneof![
            3 => (1..=g.cmax).prop_map(|c| CostSpec::Scalar { c }),
            4 => proptest::collection::vec(prop_oneof![1 => Just(1u64), 2 => 1..=g.cmax], 2..=4).prop_map(|costs| CostSpec::Multiframe { costs }),
        ]
        .boxed()
    } else {
        (1..=g.cmax).prop_map(|c| CostSpec::Scalar { c }).boxed()
    };
    (
        arr_strategy(g.arr),
        cost,
        prop_oneof![2 => Just(CbKind::Timer), 3 => Just(CbKind::Polled)],
        0i32..6,
        prop_oneof![3 => Just(Declared::Known), 1 => Just(Declared::Unknown)],
    )
        .prop_map(|(arr, cost, kind, prio, declared)| CbSpec { arr, cost, kind, prio, declared })
        .boxed()
}

fn bandwidth(s: &SupplySpec) -> f64 {
    match s.qdp() {
        Some((q, _, p)) => q as f64 / p as f64,
        None => 1.0,
    }
}

pub fn workload_strategy(g: RosGen, ulo: u64, uhi: u64) -> BoxedStrategy<Workload> {
    (proptest::collection::vec(cb_strategy(g), 1..=g.nmax), supply_strategy(g.pmax), ulo..=uhi)
        .prop_map(|(mut cbs, supply, target)| {
            // steer the utilisation relative to the reservation's bandwidth by stretching periods
            let bw = bandwidth(&supply);
            let u: f64 = cbs.iter().map(|c| c.cost.wcet() as f64 * crate::tasks::rate_of(&c.arr)).sum();
            let want = bw * target as f64 / 1000.0;
            if u > want && u > 0.0 {
                let f = (u / want).ceil() as u64;
                for c in cbs.iter_mut() {
                    stretch(&mut c.arr, f);
                }
            }
            Workload { cbs, supply }
        })
        .boxed()
}

/// multiply all time parameters of an arrival spec by f (keeps realisability)
pub fn stretch(a: &mut ArrSpec, f: u64) {
    match a {
        ArrSpec::Never | ArrSpec::Poisson { .. } => {}
        ArrSpec::Periodic { t } | ArrSpec::CurveFromPeriodic { t } => *t *= f,
        ArrSpec::Sporadic { t, j } | ArrSpec::CurveFromSporadic { t, j } => {
            *t *= f;
            *j *= f;
        }
        ArrSpec::Curve { dmin, .. } | ArrSpec::CurveFromIter { vals: dmin, .. } => {
            for x in dmin.iter_mut() {
                *x *= f;
            }
        }
        ArrSpec::AcpDirect { dmin, horizon } => {
            for x in dmin.iter_mut() {
                *x *= f;
            }
            *horizon *= f;
        }
        ArrSpec::Jittered { inner, j } | ArrSpec::Propagated { inner, j } => {
            *j *= f;
            stretch(inner, f);
        }
        ArrSpec::Sum { a, b } => {
            stretch(a, f);
            stretch(b, f);
        }
        ArrSpec::VecOf { items } | ArrSpec::SliceOf { items } => {
            for i in items.iter_mut() {
                stretch(i, f);
            }
        }
        ArrSpec::CurveOfJobs { inner, .. } | ArrSpec::CurveFromAcp { inner } => stretch(inner, f),
        ArrSpec::CurveOfUntil { inner, h } | ArrSpec::AcpOf { inner, h } => {
            *h *= f;
            stretch(inner, f);
        }
        ArrSpec::FromTrace { trace, .. } => {
            for x in trace.iter_mut() {
                *x *= f;
            }
        }
    }
}

/// one simulated scenario: release decisions, phases, execution-time cuts, budget placement
#[derive(Clone, Debug, Serialize, Deserialize, PartialEq, Eq, Hash)]
pub struct RosSched {
    pub t0: u64,
    pub choices: Vec<Vec<u16>>,
    pub phases: Vec<u64>,
    pub exec_cut: Vec<u8>,
    pub placement: Placement,
}

pub fn ros_sched_strategy(n: usize) -> BoxedStrategy<RosSched> {
    (
        0u64..12,
        proptest::collection::vec(choices_strategy(), n),
        proptest::collection::vec(prop_oneof![4 => Just(0u64), 2 => 0u64..10, 1 => 0u64..40], n),
        prop_oneof![3 => Just(vec![]), 1 => proptest::collection::vec(prop_oneof![3 => Just(0u8), 1 => any::<u8>()], 1..10)],
        placement_strategy(),
    )
        .prop_map(|(t0, choices, phases, exec_cut, placement)| RosSched { t0, choices, phases, exec_cut, placement })
        .boxed()
}

/// canonical scenario: everything densest from t0, all WCET, budget early in the first period then late,
/// timeline starting right after the early budget
pub fn ros_canonical(n: usize, q: u64) -> RosSched {
    RosSched { t0: 0, choices: vec![vec![]; n], phases: vec![0; n], exec_cut: vec![], placement: Placement::early_then_late(q) }
}

/// arrivals + execution times for a scenario; `sources[i]` = arrival spec feeding callback i (None for chain members > 0)
pub fn ros_concretise(sources: &[Option<&ArrSpec>], costs: &[&CostSpec], sc: &RosSched, span: u64) -> (Vec<Vec<u64>>, Vec<Vec<u64>>) {
    let n = sources.len();
    let mut arrivals = vec![];
    let mut exec = vec![];
    let mut cut_i = 0usize;
    for i in 0..n {
        let v: Vec<u64> = match sources[i] {
            None => vec![],
            Some(spec) => {
                let mut ch = if i < sc.choices.len() { Choices::new(&sc.choices[i]) } else { Choices::dense() };
                let start = (sc.t0 + sc.phases.get(i).copied().unwrap_or(0)) as i64;
                spec.events(start, (sc.t0 + span) as i64, &mut ch).into_iter().filter(|e| *e >= 0).map(|e| e as u64).collect()
            }
        };
        // execution times for up to 400 started instances (cyclic beyond): frame caps with generated cuts
        let m = 420; // divisible by every frame-vector length used
        let e: Vec<u64> = (0..m)
            .map(|k| {
                let cap = job_cost_cap(costs[i], k);
                if sc.exec_cut.is_empty() {
                    cap
                } else {
                    cut_i += 1;
                    let c = sc.exec_cut[cut_i % sc.exec_cut.len()] as u64;
                    cap - c % cap
                }
            })
            .collect();
        arrivals.push(v);
        exec.push(e);
    }
    (arrivals, exec)
}

//! Arrival-model specs: builder (crate objects through the crate's own
//! wrappers) and reference semantics (which event sequences are admissible).

use std::rc::Rc;

use proptest::prelude::*;
use response_time_analysis::arrival::{
    self, ArrivalBound, ArrivalCurvePrefix, Curve, ExtrapolatingCurve, Never, Periodic, Propagated, Sporadic,
};
use response_time_analysis::time::Offset;
use serde::{Deserialize, Serialize};

use crate::supply_ref::d;

#[derive(Clone, Debug, Serialize, Deserialize, PartialEq, Eq, Hash)]
pub enum ArrSpec {
    Never,
    Periodic { t: u64 },
    Sporadic { t: u64, j: u64 },
    /// delta-min prefix (entry i = min distance spanned by i+2 events)
    Curve { dmin: Vec<u64>, extrapolating: bool },
    /// `inner.clone_with_jitter(j)`
    Jittered { inner: Box<ArrSpec>, j: u64 },
    /// `Propagated::with_jitter(&inner, j)`
    Propagated { inner: Box<ArrSpec>, j: u64 },
    /// `sum_of(a, b)`
    Sum { a: Box<ArrSpec>, b: Box<ArrSpec> },
    /// `Vec<Rc<dyn ArrivalBound>>`
    VecOf { items: Vec<ArrSpec> },
    /// boxed slice `Box<[Rc<dyn ArrivalBound>]>`
    SliceOf { items: Vec<ArrSpec> },
    /// `Curve::from_arrival_bound(&inner, n)`
    CurveOfJobs { inner: Box<ArrSpec>, n: usize },
    /// `Curve::from_arrival_bound_until(&inner, h)`
    CurveOfUntil { inner: Box<ArrSpec>, h: u64 },
    /// `ArrivalCurvePrefix::from_arrival_bound_until(&inner, h)`
    AcpOf { inner: Box<ArrSpec>, h: u64 },
    /// `ArrivalCurvePrefix::new(horizon, steps)` with the steps of the curve `dmin` up to the horizon
    AcpDirect { dmin: Vec<u64>, horizon: u64 },
    /// `Curve::from(&acp)` where acp is built from `inner` (must be AcpOf / AcpDirect)
    CurveFromAcp { inner: Box<ArrSpec> },
    /// `Curve::from(Periodic)` / `Curve::from(Sporadic)`
    CurveFromPeriodic { t: u64 },
    CurveFromSporadic { t: u64, j: u64 },
    /// `Curve::from_trace(trace, prefix_jobs)`, optionally wrapped as ExtrapolatingCurve
    FromTrace { trace: Vec<u64>, prefix_jobs: usize, extrapolating: bool },
    /// `vals.collect::<Curve>()` (FromIterator: makes the delta-min vector monotone)
    CurveFromIter { vals: Vec<u64>, extrapolating: bool },
    /// `ApproximatedPoisson::new(rate_milli / 1000, eps_milli / 1000)`: the only model whose bound is 0
    /// on short intervals and positive later; no sequence semantics (probabilistic), used for the
    /// steps / totality checks only
    Poisson { rate_milli: u64, eps_milli: u64 },
}

/// running maximum
pub fn running_max(v: &[u64]) -> Vec<u64> {
    let mut out = v.to_vec();
    for i in 1..out.len() {
        out[i] = out[i].max(out[i - 1]);
    }
    out
}

pub type Ab = Rc<dyn ArrivalBound>;

/// steps (delta, n) of the delta-min curve `dmin` up to `horizon`
pub fn acp_steps_of(dmin: &[u64], horizon: u64) -> Vec<(u64, usize)> {
    // eta(delta) = 1 + #{i : dmin[i] < delta} for delta >= 1 (inside the prefix)
    let mut steps: Vec<(u64, usize)> = vec![];
    // first step at delta = 1 with 1 + (number of zero entries) jobs
    let zeros = dmin.iter().filter(|x| **x == 0).count();
    if horizon >= 1 {
        steps.push((1, 1 + zeros));
    }
    let mut i = zeros;
    while i < dmin.len() {
        let dist = dmin[i];
        let mut k = i;
        while k < dmin.len() && dmin[k] == dist {
            k += 1;
        }
        // at delta = dist + 1 the curve reaches k + 1 jobs
        if dist + 1 <= horizon {
            steps.push((dist + 1, k + 1));
        }
        i = k;
    }
    steps
}

impl ArrSpec {
    pub fn boxed(self) -> Box<ArrSpec> {
        Box::new(self)
    }

    /// Build the crate object (may panic inside the crate; call under `guard`).
    pub fn build(&self) -> Ab {
        match self {
            ArrSpec::Never => Rc::new(Never {}),
            ArrSpec::Periodic { t } => Rc::new(Periodic::new(d(*t))),
            // both constructors are exercised: jitter-free specs with an odd period use `new_zero_jitter`
            ArrSpec::Sporadic { t, j } if *j == 0 && *t % 2 == 1 => Rc::new(Sporadic::new_zero_jitter(d(*t))),
            ArrSpec::Sporadic { t, j } => Rc::new(Sporadic::new(d(*t), d(*j))),
            ArrSpec::Curve { dmin, extrapolating } => {
                let c = Curve::new(dmin.iter().map(|x| d(*x)).collect());
                if *extrapolating {
                    Rc::new(ExtrapolatingCurve::new(c))
                } else {
                    Rc::new(c)
                }
            }
            ArrSpec::Jittered { inner, j } => Rc::from(inner.build().clone_with_jitter(d(*j))),
            ArrSpec::Propagated { inner, j } => Rc::new(Propagated::with_jitter(&inner.build(), d(*j))),
            ArrSpec::Sum { a, b } => Rc::new(arrival::sum_of(a.build(), b.build())),
            ArrSpec::VecOf { items } => Rc::new(items.iter().map(|x| x.build()).collect::<Vec<Ab>>()),
            ArrSpec::SliceOf { items } => {
                let b: Box<[Ab]> = items.iter().map(|x| x.build()).collect::<Vec<Ab>>().into_boxed_slice();
                Rc::new(b)
            }
            ArrSpec::CurveOfJobs { inner, n } => Rc::new(Curve::from_arrival_bound(&inner.build(), *n)),
            ArrSpec::CurveOfUntil { inner, h } => Rc::new(Curve::from_arrival_bound_until(&inner.build(), d(*h))),
            ArrSpec::AcpOf { .. } | ArrSpec::AcpDirect { .. } => Rc::new(self.build_acp()),
            ArrSpec::CurveFromAcp { inner } => Rc::new(Curve::from(&inner.build_acp())),
            ArrSpec::CurveFromPeriodic { t } => Rc::new(Curve::from(Periodic::new(d(*t)))),
            ArrSpec::CurveFromSporadic { t, j } => Rc::new(Curve::from(Sporadic::new(d(*t), d(*j)))),
            // both construction paths: odd rates go through `Poisson::approximate`
            ArrSpec::Poisson { rate_milli, eps_milli } if *rate_milli % 2 == 1 => {
                Rc::new(arrival::Poisson { rate: *rate_milli as f64 / 1000.0 }.approximate(*eps_milli as f64 / 1000.0))
            }
            ArrSpec::Poisson { rate_milli, eps_milli } => Rc::new(arrival::ApproximatedPoisson::new(*rate_milli as f64 / 1000.0, *eps_milli as f64 / 1000.0)),
            ArrSpec::CurveFromIter { vals, extrapolating } => {
                let c: Curve = vals.iter().map(|x| d(*x)).collect();
                if *extrapolating {
                    Rc::new(ExtrapolatingCurve::new(c))
                } else {
                    Rc::new(c)
                }
            }
            ArrSpec::FromTrace { trace, prefix_jobs, extrapolating } => {
                let c = Curve::from_trace(trace.iter().map(|x| Offset::from(*x)), *prefix_jobs);
                if *extrapolating {
                    Rc::new(ExtrapolatingCurve::new(c))
                } else {
                    Rc::new(c)
                }
            }
        }
    }

    pub fn build_acp(&self) -> ArrivalCurvePrefix {
        match self {
            ArrSpec::AcpOf { inner, h } => ArrivalCurvePrefix::from_arrival_bound_until(&inner.build(), d(*h)),
            ArrSpec::AcpDirect { dmin, horizon } => ArrivalCurvePrefix::new(
                d(*horizon),
                acp_steps_of(dmin, *horizon).into_iter().map(|(x, n)| (d(x), n)).collect(),
            ),
            _ => panic!("harness bug: build_acp on non-ACP spec"),
        }
    }

    /// a plain (non-extrapolating) crate Curve for specs that are one
    pub fn build_plain_curve(&self) -> Option<Curve> {
        match self {
            ArrSpec::Curve { dmin, .. } => Some(Curve::new(dmin.iter().map(|x| d(*x)).collect())),
            _ => None,
        }
    }

    pub fn never_arrives(&self) -> bool {
        match self {
            ArrSpec::Never => true,
            ArrSpec::Jittered { inner, .. }
            | ArrSpec::Propagated { inner, .. }
            | ArrSpec::CurveOfJobs { inner, .. }
            | ArrSpec::CurveOfUntil { inner, .. }
            | ArrSpec::AcpOf { inner, .. }
            | ArrSpec::CurveFromAcp { inner } => inner.never_arrives(),
            ArrSpec::Sum { a, b } => a.never_arrives() && b.never_arrives(),
            ArrSpec::VecOf { items } | ArrSpec::SliceOf { items } => items.iter().all(|x| x.never_arrives()),
            _ => false,
        }
    }

    /// contains a node satisfying `f`
    pub fn any(&self, f: &dyn Fn(&ArrSpec) -> bool) -> bool {
        if f(self) {
            return true;
        }
        match self {
            ArrSpec::Jittered { inner, .. }
            | ArrSpec::Propagated { inner, .. }
            | ArrSpec::CurveOfJobs { inner, .. }
            | ArrSpec::CurveOfUntil { inner, .. }
            | ArrSpec::AcpOf { inner, .. }
            | ArrSpec::CurveFromAcp { inner } => inner.any(f),
            ArrSpec::Sum { a, b } => a.any(f) || b.any(f),
            ArrSpec::VecOf { items } | ArrSpec::SliceOf { items } => items.iter().any(|x| x.any(f)),
            _ => false,
        }
    }

    /// Is a *direct* ArrivalCurvePrefix visible through aggregation wrappers only
    /// (its leading-zero step then shows up in the merged steps_iter)?
    pub fn exposes_direct_acp(&self) -> bool {
        match self {
            ArrSpec::AcpOf { .. } | ArrSpec::AcpDirect { .. } => true,
            ArrSpec::Sum { a, b } => a.exposes_direct_acp() || b.exposes_direct_acp(),
            ArrSpec::VecOf { items } | ArrSpec::SliceOf { items } => items.iter().any(|x| x.exposes_direct_acp()),
            _ => false,
        }
    }

    pub fn has_jitter(&self) -> bool {
        self.any(&|x| {
            matches!(x, ArrSpec::Sporadic { j, .. } | ArrSpec::Jittered { j, .. } | ArrSpec::Propagated { j, .. } | ArrSpec::CurveFromSporadic { j, .. } if *j > 0)
        })
    }
    pub fn has_burst(&self) -> bool {
        self.any(&|x| match x {
            ArrSpec::Curve { dmin, .. } | ArrSpec::AcpDirect { dmin, .. } | ArrSpec::CurveFromIter { vals: dmin, .. } => dmin.first() == Some(&0),
            ArrSpec::Sporadic { t, j } | ArrSpec::CurveFromSporadic { t, j } => j >= t,
            ArrSpec::FromTrace { trace, .. } => trace.windows(2).any(|w| w[0] == w[1]),
            _ => false,
        })
    }
    pub fn is_composite(&self) -> bool {
        self.any(&|x| matches!(x, ArrSpec::Sum { .. } | ArrSpec::VecOf { .. } | ArrSpec::SliceOf { .. }))
    }
    pub fn depth(&self) -> usize {
        match self {
            ArrSpec::Jittered { inner, .. }
            | ArrSpec::Propagated { inner, .. }
            | ArrSpec::CurveOfJobs { inner, .. }
            | ArrSpec::CurveOfUntil { inner, .. }
            | ArrSpec::AcpOf { inner, .. }
            | ArrSpec::CurveFromAcp { inner } => 1 + inner.depth(),
            ArrSpec::Sum { a, b } => 1 + a.depth().max(b.depth()),
            ArrSpec::VecOf { items } | ArrSpec::SliceOf { items } => 1 + items.iter().map(|x| x.depth()).max().unwrap_or(0),
            _ => 0,
        }
    }

    /// a characteristic time scale (for choosing horizons)
    pub fn scale(&self) -> u64 {
        match self {
            ArrSpec::Never => 1,
            ArrSpec::Periodic { t } | ArrSpec::CurveFromPeriodic { t } => *t,
            ArrSpec::Sporadic { t, j } | ArrSpec::CurveFromSporadic { t, j } => t + j,
            ArrSpec::Curve { dmin, .. } | ArrSpec::AcpDirect { dmin, .. } => dmin.last().copied().unwrap_or(1).max(1),
            ArrSpec::Jittered { inner, j } | ArrSpec::Propagated { inner, j } => inner.scale() + j,
            ArrSpec::Sum { a, b } => a.scale().max(b.scale()),
            ArrSpec::VecOf { items } | ArrSpec::SliceOf { items } => items.iter().map(|x| x.scale()).max().unwrap_or(1),
            ArrSpec::CurveOfJobs { inner, .. } | ArrSpec::CurveOfUntil { inner, .. } | ArrSpec::AcpOf { inner, .. } | ArrSpec::CurveFromAcp { inner } => inner.scale(),
            ArrSpec::FromTrace { trace, .. } => trace.last().copied().unwrap_or(1).max(1),
            ArrSpec::CurveFromIter { vals, .. } => vals.iter().copied().max().unwrap_or(1).max(1),
            ArrSpec::Poisson { rate_milli, .. } => (1000 / (*rate_milli).max(1)).max(1),
        }
    }
}

// ---------------------------------------------------------------------------
// reference semantics: admissible event sequences

/// A cursor over a generated vector of nondeterministic choices (consumed
/// cyclically); the all-zero vector yields the densest sequence.
#[derive(Clone, Debug)]
pub struct Choices<'a> {
    v: &'a [u16],
    i: usize,
}

impl<'a> Choices<'a> {
    pub fn new(v: &'a [u16]) -> Self {
        Choices { v, i: 0 }
    }
    pub fn dense() -> Choices<'static> {
        Choices { v: &[], i: 0 }
    }
    /// a value in 0..=max
    pub fn next(&mut self, max: u64) -> u64 {
        if self.v.is_empty() || max == 0 {
            return 0;
        }
        let x = self.v[self.i % self.v.len()] as u64;
        self.i += 1;
        x % (max + 1)
    }
}

/// Densest sequence respecting the delta-min prefix constraints (every run of
/// k+1 <= len+1 consecutive events spans at least dmin[k-1]) from `t0`, plus
/// optional generated slack per event.
pub fn curve_events(dmin: &[u64], t0: i64, horizon: i64, ch: &mut Choices, max_events: usize) -> Vec<i64> {
    let mut v: Vec<i64> = vec![];
    let mut e = t0 + ch.next(3) as i64;
    while e < horizon && v.len() < max_events {
        v.push(e);
        let n = v.len();
        let mut next = i64::MIN;
        for k in 1..=n.min(dmin.len()) {
            next = next.max(v[n - k] + dmin[k - 1] as i64);
        }
        // slack: mostly none, sometimes small, rarely large
        let s = ch.next(7);
        let slack = match s {
            0..=4 => 0,
            5 => 1,
            6 => ch.next(4),
            _ => ch.next(dmin.last().copied().unwrap_or(1).max(1)),
        };
        e = next + slack as i64;
    }
    v
}

impl ArrSpec {
    /// Generate an event sequence admissible for this model, all events in
    /// [t0, horizon).  With `Choices::dense()` this is the densest sequence
    /// piling up at t0.  None for models without a sequence semantics of
    /// their own.
    pub fn events(&self, t0: i64, horizon: i64, ch: &mut Choices) -> Vec<i64> {
        const MAXEV: usize = 4000;
        match self {
            ArrSpec::Never => vec![],
            ArrSpec::Periodic { t } | ArrSpec::CurveFromPeriodic { t } => {
                let phase = ch.next(*t - 1) as i64;
                let mut v = vec![];
                let mut e = t0 + phase;
                while e < horizon && v.len() < MAXEV {
                    v.push(e);
                    e += *t as i64;
                }
                v
            }
            ArrSpec::Sporadic { t, j } | ArrSpec::CurveFromSporadic { t, j } => {
                // arrivals >= t apart; each released 0..=j later
                let mut v = vec![];
                let mut a = t0 - *j as i64 + ch.next(3) as i64;
                let mut count = 0;
                while a < horizon && count < MAXEV {
                    // dense: delay so that the release lands on t0 if the arrival is earlier
                    let mode = ch.next(3);
                    let need = (t0 - a).max(0).min(*j as i64);
                    let jit = match mode {
                        0 | 1 => need,
                        2 => ch.next(*j) as i64,
                        _ => *j as i64,
                    };
                    let r = a + jit;
                    if r >= t0 && r < horizon {
                        v.push(r);
                    }
                    let s = ch.next(7);
                    let slack = match s {
                        0..=4 => 0,
                        5 => 1,
                        6 => ch.next(4),
                        _ => ch.next(*t),
                    };
                    a += *t as i64 + slack as i64;
                    count += 1;
                }
                v.sort();
                v
            }
            ArrSpec::Curve { dmin, .. } | ArrSpec::AcpDirect { dmin, .. } => curve_events(dmin, t0, horizon, ch, MAXEV),
            ArrSpec::CurveFromIter { vals, .. } => curve_events(&running_max(vals), t0, horizon, ch, MAXEV),
            ArrSpec::Poisson { .. } => panic!("harness bug: a Poisson model has no admissible-sequence semantics"),
            ArrSpec::Jittered { inner, j } | ArrSpec::Propagated { inner, j } => {
                let base = inner.events(t0 - *j as i64, horizon, ch);
                let mut v: Vec<i64> = base
                    .into_iter()
                    .map(|e| {
                        let mode = ch.next(3);
                        let need = (t0 - e).max(0).min(*j as i64);
                        match mode {
                            0 | 1 => e + need,
                            2 => e + ch.next(*j) as i64,
                            _ => e + *j as i64,
                        }
                    })
                    .filter(|r| *r >= t0 && *r < horizon)
                    .collect();
                v.sort();
                v
            }
            ArrSpec::Sum { a, b } => {
                let mut v = a.events(t0, horizon, ch);
                v.extend(b.events(t0, horizon, ch));
                v.sort();
                v
            }
            ArrSpec::VecOf { items } | ArrSpec::SliceOf { items } => {
                let mut v = vec![];
                for it in items {
                    v.extend(it.events(t0, horizon, ch));
                }
                v.sort();
                v
            }
            ArrSpec::CurveOfJobs { inner, .. }
            | ArrSpec::CurveOfUntil { inner, .. }
            | ArrSpec::AcpOf { inner, .. }
            | ArrSpec::CurveFromAcp { inner } => inner.events(t0, horizon, ch),
            ArrSpec::FromTrace { trace, .. } => {
                let first = trace.first().copied().unwrap_or(0) as i64;
                trace.iter().map(|x| *x as i64 - first + t0).filter(|x| *x < horizon).collect()
            }
        }
    }
}

/// maximum number of events of the sorted sequence in any half-open window of length delta
pub fn max_window(seq: &[i64], delta: u64) -> usize {
    if delta == 0 {
        return 0;
    }
    let mut best = 0;
    let mut hi = 0;
    for lo in 0..seq.len() {
        while hi < seq.len() && seq[hi] < seq[lo] + delta as i64 {
            hi += 1;
        }
        best = best.max(hi - lo);
    }
    best
}

/// max_window for all delta in 0..=upto at once: via minimum spans.
/// span[n] = min over i of seq[i+n-1]-seq[i]; n events fit into a window of length delta iff span[n] < delta.
pub fn max_window_table(seq: &[i64], upto: u64) -> Vec<usize> {
    let n = seq.len();
    let mut span: Vec<i64> = vec![0; n + 1];
    for k in 1..=n {
        let mut m = i64::MAX;
        for i in 0..=(n - k) {
            m = m.min(seq[i + k - 1] - seq[i]);
        }
        span[k] = m;
    }
    let mut out = vec![0usize; upto as usize + 1];
    let mut k = 0;
    for delta in 1..=upto as usize {
        while k < n && span[k + 1] < delta as i64 {
            k += 1;
        }
        out[delta] = k;
    }
    out
}

// ---------------------------------------------------------------------------
// strategies

/// non-decreasing, super-additive delta-min prefix with last entry > 0
pub fn superadditive_closure(v: &[u64], upto: usize) -> Vec<u64> {
    let mut out: Vec<u64> = vec![];
    for i in 0..upto {
        let n = i + 2;
        let mut m = if i < v.len() { v[i] } else { 0 };
        if i > 0 {
            m = m.max(out[i - 1]);
        }
        for a in 2..n {
            let b = n + 1 - a;
            if b >= 2 && b < n {
                m = m.max(out[a - 2] + out[b - 2]);
            }
        }
        out.push(m);
    }
    out
}

/// increments -> super-additive prefix.  `tmax` bounds single increments.
pub fn dmin_strategy(maxlen: usize, tmax: u64, allow_plateau_end: bool) -> BoxedStrategy<Vec<u64>> {
    proptest::collection::vec(prop_oneof![3 => Just(0u64), 2 => 1u64..=4, 5 => 1u64..=tmax], 1..=maxlen)
        .prop_map(move |incs| {
            let mut acc = 0;
            let mut v: Vec<u64> = incs
                .iter()
                .map(|x| {
                    acc += x;
                    acc
                })
                .collect();
            if *v.last().unwrap() == 0 {
                let l = v.len();
                v[l - 1] = 1 + incs.len() as u64 % tmax;
            }
            let mut c = superadditive_closure(&v, v.len());
            let l = c.len();
            if !allow_plateau_end && l >= 2 && c[l - 1] == c[l - 2] {
                c[l - 1] += 1;
            }
            c
        })
        .boxed()
}

/// arbitrary non-decreasing prefix, last entry > 0 (not necessarily super-additive)
pub fn dmin_loose_strategy(maxlen: usize, tmax: u64) -> BoxedStrategy<Vec<u64>> {
    proptest::collection::vec(prop_oneof![2 => Just(0u64), 5 => 1u64..=tmax], 1..=maxlen)
        .prop_map(move |incs| {
            let mut acc = 0;
            let mut v: Vec<u64> = incs
                .iter()
                .map(|x| {
                    acc += x;
                    acc
                })
                .collect();
            if *v.last().unwrap() == 0 {
                let l = v.len();
                v[l - 1] = 1;
            }
            v
        })
        .boxed()
}

#[derive(Clone, Copy, Debug)]
pub struct ArrGen {
    /// maximum period / increment
    pub tmax: u64,
    /// allow `Never`
    pub never: bool,
    /// allow delta-min prefixes ending in a plateau
    pub plateau_end: bool,
    /// allow plain (non-extrapolating) curves
    pub plain_curves: bool,
    /// allow derived curves / prefixes (CurveOf..., AcpOf, CurveFromAcp, From<Periodic|Sporadic>)
    pub derived: bool,
    /// allow direct ArrivalCurvePrefix nodes
    pub acp: bool,
    /// allow non-super-additive prefixes
    pub loose: bool,
    /// allow ApproximatedPoisson leaves (only for checks that never ask for event sequences)
    pub poisson: bool,
    pub depth: u32,
}

impl ArrGen {
    pub fn basic(tmax: u64) -> ArrGen {
        ArrGen { tmax, never: false, plateau_end: false, plain_curves: false, derived: false, acp: false, loose: false, poisson: false, depth: 1 }
    }
}

pub fn leaf_strategy(g: ArrGen) -> BoxedStrategy<ArrSpec> {
    let tmax = g.tmax;
    let mut opts: Vec<(u32, BoxedStrategy<ArrSpec>)> = vec![
        (3, (1..=tmax).prop_map(|t| ArrSpec::Periodic { t }).boxed()),
        (
            5,
            (1..=tmax, prop_oneof![2 => Just(0u64), 3 => 0..=tmax, 2 => 0..=4 * tmax])
                .prop_map(|(t, j)| ArrSpec::Sporadic { t, j })
                .boxed(),
        ),
        (
            5,
            dmin_strategy(6, tmax, g.plateau_end)
                .prop_map(|dmin| ArrSpec::Curve { dmin, extrapolating: true })
                .boxed(),
        ),
    ];
    if g.plain_curves {
        opts.push((
            3,
            dmin_strategy(6, tmax, g.plateau_end)
                .prop_map(|dmin| ArrSpec::Curve { dmin, extrapolating: false })
                .boxed(),
        ));
    }
    if g.loose {
        opts.push((
            2,
            (dmin_loose_strategy(6, tmax), any::<bool>())
                .prop_map(|(dmin, e)| ArrSpec::Curve { dmin, extrapolating: e })
                .boxed(),
        ));
    }
    if g.loose {
        // arbitrary (also non-monotone) vectors through FromIterator; last entry of the running maximum > 0
        opts.push((
            1,
            (proptest::collection::vec(0u64..=tmax, 1..=6), 1u64..=tmax, any::<bool>())
                .prop_map(|(mut vals, last, e)| {
                    if vals.iter().all(|x| *x == 0) {
                        vals.push(last);
                    }
                    ArrSpec::CurveFromIter { vals, extrapolating: e }
                })
                .boxed(),
        ));
    }
    if g.never {
        opts.push((1, Just(ArrSpec::Never).boxed()));
    }
    if g.poisson {
        // small means only: the quantile search re-evaluates the pmf from scratch for every candidate
        opts.push((1, (1u64..=200, 1u64..=400).prop_map(|(rate_milli, eps_milli)| ArrSpec::Poisson { rate_milli, eps_milli }).boxed()));
    }
    if g.acp {
        opts.push((
            1,
            (dmin_strategy(6, tmax, g.plateau_end), 0u64..=3 * tmax)
                .prop_map(|(dmin, extra)| {
                    let horizon = dmin.last().unwrap() + 1 + extra;
                    ArrSpec::AcpDirect { dmin, horizon }
                })
                .boxed(),
        ));
    }
    if g.derived {
        opts.push((1, (1..=tmax).prop_map(|t| ArrSpec::CurveFromPeriodic { t }).boxed()));
        opts.push((
            1,
            (1..=tmax, 0..=2 * tmax)
                .prop_map(|(t, j)| ArrSpec::CurveFromSporadic { t, j })
                .boxed(),
        ));
    }
    proptest::strategy::Union::new_weighted(opts).boxed()
}

/// A delta-min Curve cannot be derived from a model that releases nothing within the requested
/// prefix: `Never`, or an approximated Poisson process (whose bound is 0 on short intervals).
fn no_curve_of(a: &ArrSpec) -> bool {
    a.never_arrives() || a.any(&|x| matches!(x, ArrSpec::Poisson { .. }))
}

/// nested arrival specs
pub fn arr_strategy(g: ArrGen) -> BoxedStrategy<ArrSpec> {
    let leaf = leaf_strategy(g);
    if g.depth == 0 {
        return leaf;
    }
    let tmax = g.tmax;
    leaf.prop_recursive(g.depth, 12, 3, move |inner| {
        let mut opts: Vec<(u32, BoxedStrategy<ArrSpec>)> = vec![
            (
                3,
                (inner.clone(), 0..=3 * tmax)
                    .prop_map(|(i, j)| ArrSpec::Jittered { inner: i.boxed(), j })
                    .boxed(),
            ),
            (
                2,
                (inner.clone(), 0..=3 * tmax)
                    .prop_map(|(i, j)| ArrSpec::Propagated { inner: i.boxed(), j })
                    .boxed(),
            ),
            (
                2,
                (inner.clone(), inner.clone())
                    .prop_map(|(a, b)| ArrSpec::Sum { a: a.boxed(), b: b.boxed() })
                    .boxed(),
            ),
            (
                1,
                proptest::collection::vec(inner.clone(), 1..=3)
                    .prop_map(|items| ArrSpec::VecOf { items })
                    .boxed(),
            ),
            (
                1,
                proptest::collection::vec(inner.clone(), 1..=3)
                    .prop_map(|items| ArrSpec::SliceOf { items })
                    .boxed(),
            ),
        ];
        if g.derived {
            opts.push((
                1,
                (inner.clone(), 1usize..14)
                    // (a delta-min Curve cannot represent a process that never releases anything)
                    .prop_map(|(i, n)| if no_curve_of(&i) { i } else { ArrSpec::CurveOfJobs { inner: i.boxed(), n } })
                    .boxed(),
            ));
            opts.push((
                1,
                (inner.clone(), 1..=6 * tmax)
                    .prop_map(|(i, h)| if no_curve_of(&i) { i } else { ArrSpec::CurveOfUntil { inner: i.boxed(), h } })
                    .boxed(),
            ));
        }
        if g.derived && g.acp {
            opts.push((
                1,
                (inner.clone(), 1..=6 * tmax)
                    .prop_map(|(i, h)| ArrSpec::AcpOf { inner: i.boxed(), h })
                    .boxed(),
            ));
            opts.push((
                1,
                (inner.clone(), 1..=6 * tmax)
                    .prop_map(|(i, h)| if no_curve_of(&i) { i } else { ArrSpec::CurveFromAcp { inner: ArrSpec::AcpOf { inner: i.boxed(), h }.boxed() } })
                    .boxed(),
            ));
        }
        proptest::strategy::Union::new_weighted(opts)
    })
    .boxed()
}

pub fn choices_strategy() -> BoxedStrategy<Vec<u16>> {
    prop_oneof![
        2 => Just(vec![]),
        5 => proptest::collection::vec(any::<u16>(), 1..24),
        // mostly-dense perturbations
        3 => proptest::collection::vec(prop_oneof![4 => Just(0u16), 1 => any::<u16>()], 4..32),
    ]
    .boxed()
}

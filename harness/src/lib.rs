//! Verification harness for response-time-analysis-rs: property-based checks (proptest) for the
//! 20 listed properties; see /verif/DESIGN.md.
#![allow(dead_code)]

pub mod arr;
pub mod cost;
pub mod dec;
pub mod engine;
pub mod fuzz;
pub mod props;
pub mod ros;
pub mod sim_uni;
pub mod supply_ref;
pub mod tasks;

//! Second engine: coverage-guided fuzzing (libFuzzer through cargo-fuzz) of the *same* checks.
//!
//! The fuzzer's byte string is split into a selector byte (which sub-check) and a body that is
//! decoded by the sub-check's hand-written byte decoder (dec.rs - a second, independent generator
//! family; proptest's pass-through RNG turned out to be unusable because every flat_map halves the
//! remaining bytes and uniform sampling spins on the zeros that follow).  The decoded case is handed
//! to the plain check function, so oracles and known-finding signatures are shared with the proptest
//! engine.  A violation is written as an ordinary replay file and then
//! reported to libFuzzer by panicking.

use std::sync::OnceLock;

use serde_json::Value;

use crate::engine::*;
use crate::props;

static TABLE: OnceLock<Vec<PropertyDef>> = OnceLock::new();

fn table() -> &'static Vec<PropertyDef> {
    TABLE.get_or_init(|| {
        install_panic_hook();
        let only = std::env::var("RTAVERIF_FUZZ_ONLY").ok().filter(|s| !s.is_empty());
        props::all_ids()
            .into_iter()
            .filter(|id| only.as_deref().map(|o| o == *id).unwrap_or(true))
            .filter_map(props::property)
            .collect()
    })
}

/// (property id, sub-check name) selected by the first byte
pub fn select(sel: u8) -> Option<(&'static PropertyDef, &'static SubCheck)> {
    let t = table();
    let all: Vec<(&PropertyDef, &SubCheck)> = t.iter().flat_map(|p| p.subchecks.iter().filter(|s| s.has_decoder).map(move |s| (p, s))).collect();
    if all.is_empty() {
        return None;
    }
    Some(all[sel as usize % all.len()])
}

pub struct FuzzHit {
    pub property: &'static str,
    pub subcheck: &'static str,
    pub case: Value,
    pub message: String,
}

/// Run one fuzz input. Some(hit) = a violation (not matching a known finding).
pub fn fuzz_one(data: &[u8]) -> Option<FuzzHit> {
    if data.is_empty() {
        return None;
    }
    let (p, sc) = select(data[0])?;
    let (case, res) = (sc.fuzz_one)(&data[1..])?;
    match res {
        Ok(_) => None,
        Err(message) => Some(FuzzHit { property: p.id, subcheck: sc.name, case, message }),
    }
}

/// Entry point for the libFuzzer target.
pub fn fuzz_entry(data: &[u8]) {
    if let Some(hit) = fuzz_one(data) {
        let path = write_replay(hit.property, hit.subcheck, &hit.case, &hit.message);
        // let libFuzzer record the input as a crash artifact; the replay file is the portable reproduction
        eprintln!("VIOLATION property={} replay={}", hit.property, path);
        eprintln!("  subcheck={} message={}", hit.subcheck, hit.message);
        std::process::abort();
    }
}

/// `rtaverif fuzz-replay <artifact>`: decode a libFuzzer artifact, print the verdict, write the replay file.
pub fn fuzz_replay(path: &str) -> i32 {
    let data = match std::fs::read(path) {
        Ok(d) => d,
        Err(e) => {
            println!("INCONCLUSIVE: cannot read {}: {}", path, e);
            return 2;
        }
    };
    match fuzz_one(&data) {
        Some(hit) => {
            let rp = write_replay(hit.property, hit.subcheck, &hit.case, &hit.message);
            println!("VIOLATION property={} replay={}", hit.property, rp);
            println!("  subcheck={} message={}", hit.subcheck, hit.message);
            1
        }
        None => {
            println!("fuzz artifact {}: no violation on this tree", path);
            0
        }
    }
}

/// `rtaverif fuzz-seed <ID> <dir> <n>`: write n initial corpus files (selector + random body) per sub-check.
pub fn fuzz_seed(id: &str, dir: &str, n: usize, seed: u64) {
    std::env::set_var("RTAVERIF_FUZZ_ONLY", id);
    let _ = std::fs::create_dir_all(dir);
    let nsub = table().iter().map(|p| p.subchecks.iter().filter(|s| s.has_decoder).count()).sum::<usize>().max(1);
    let mut x = seed.wrapping_mul(0x9E37_79B9_7F4A_7C15) | 1;
    for k in 0..n {
        let mut body = vec![(k % nsub) as u8];
        let len = 64 + (k * 97) % 900;
        for _ in 0..len {
            x ^= x << 13;
            x ^= x >> 7;
            x ^= x << 17;
            // mostly small bytes: proptest strategies read little-endian integers, small values keep sizes moderate
            let b = (x >> 32) as u8;
            body.push(if (x & 3) == 0 { b } else { b % 16 });
        }
        let _ = std::fs::write(format!("{}/seed-{:04}", dir, k), body);
    }
}

/// `rtaverif fuzz-evidence <ID> <libfuzzer log> <runs requested> <seed files>`: record what the fuzz
/// stage covered in the property's evidence file (written by the proptest stage just before).
pub fn fuzz_evidence(id: &str, log: &str, verdict: &str) -> i32 {
    let path = format!("{}/{}.json", out_dir("evidence"), id);
    let mut ev: Value = match std::fs::read_to_string(&path).ok().and_then(|s| serde_json::from_str(&s).ok()) {
        Some(v) => v,
        None => return 2,
    };
    let text = std::fs::read_to_string(log).unwrap_or_default();
    // last status line: "#200000\tDONE   cov: 519 ft: 1036 corp: 214/3343b ..."
    let mut runs = 0u64;
    let mut cov = 0u64;
    let mut ft = 0u64;
    let mut corp = 0u64;
    for line in text.lines().filter(|l| l.starts_with('#')) {
        let toks: Vec<&str> = line.split_whitespace().collect();
        if let Some(r) = toks.first().and_then(|t| t.trim_start_matches('#').parse::<u64>().ok()) {
            runs = runs.max(r);
        }
        for w in toks.windows(2) {
            match w[0] {
                "cov:" => cov = w[1].parse().unwrap_or(cov),
                "ft:" => ft = w[1].parse().unwrap_or(ft),
                "corp:" => corp = w[1].split('/').next().and_then(|x| x.parse().ok()).unwrap_or(corp),
                _ => {}
            }
        }
    }
    let targets: Vec<String> = table().iter().flat_map(|p| p.subchecks.iter().filter(|s| s.has_decoder).map(move |s| format!("{}:{}", p.id, s.name))).collect();
    ev["coverage"]["fuzz_stage"] = serde_json::json!({
        "engine": "libFuzzer via cargo-fuzz, structure-aware byte decoders (harness/src/dec.rs), same check functions and oracles as the proptest stage",
        "targets": targets,
        "executions": runs,
        "edge_coverage": cov,
        "features": ft,
        "corpus_size": corp,
        "verdict": verdict,
    });
    if let Some(e) = ev["coverage"]["evaluations"].as_u64() {
        ev["coverage"]["evaluations"] = serde_json::json!(e + runs);
    }
    match std::fs::write(&path, serde_json::to_string_pretty(&ev).unwrap()) {
        Ok(_) => 0,
        Err(_) => 2,
    }
}

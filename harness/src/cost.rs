//! Job-cost model specs: builder and reference semantics.

use std::rc::Rc;

use proptest::prelude::*;
use response_time_analysis::wcet::{self, JobCostModel};
use serde::{Deserialize, Serialize};

use crate::supply_ref::s;

#[derive(Clone, Debug, Serialize, Deserialize, PartialEq, Eq, Hash)]
pub enum CostSpec {
    Scalar { c: u64 },
    Multiframe { costs: Vec<u64> },
    /// cumulative cost prefix (entry i = max cost of i+1 consecutive jobs)
    Curve { cum: Vec<u64>, extrapolating: bool },
    /// `wcet::Curve::from_trace(costs, max_n)`
    FromTrace { costs: Vec<u64>, max_n: usize, extrapolating: bool },
    /// `vals.collect::<wcet::Curve>()` (FromIterator: makes the cumulative vector monotone)
    FromIter { vals: Vec<u64> },
}

pub type Cm = Rc<dyn JobCostModel>;

impl CostSpec {
    pub fn build(&self) -> Cm {
        match self {
            CostSpec::Scalar { c } => Rc::new(wcet::Scalar::new(s(*c))),
            CostSpec::Multiframe { costs } => Rc::new(wcet::Multiframe::new(costs.iter().map(|x| s(*x)).collect())),
            CostSpec::Curve { cum, extrapolating } => {
                let c = wcet::Curve::new(cum.iter().map(|x| s(*x)).collect());
                if *extrapolating {
                    Rc::new(wcet::ExtrapolatingCurve::new(c))
                } else {
                    Rc::new(c)
                }
            }
            CostSpec::FromTrace { costs, max_n, extrapolating } => {
                let c = wcet::Curve::from_trace(costs.iter().map(|x| s(*x)), *max_n);
                if *extrapolating {
                    Rc::new(wcet::ExtrapolatingCurve::new(c))
                } else {
                    Rc::new(c)
                }
            }
            CostSpec::FromIter { vals } => Rc::new(vals.iter().map(|x| s(*x)).collect::<wcet::Curve>()),
        }
    }

    pub fn build_curve(&self) -> Option<wcet::Curve> {
        match self {
            CostSpec::Curve { cum, .. } => Some(wcet::Curve::new(cum.iter().map(|x| s(*x)).collect())),
            CostSpec::FromTrace { costs, max_n, .. } => Some(wcet::Curve::from_trace(costs.iter().map(|x| s(*x)), *max_n)),
            _ => None,
        }
    }

    pub fn is_scalar(&self) -> bool {
        matches!(self, CostSpec::Scalar { .. })
    }

    /// the largest single job cost
    pub fn wcet(&self) -> u64 {
        match self {
            CostSpec::Scalar { c } => *c,
            CostSpec::Multiframe { costs } => costs.iter().copied().max().unwrap_or(0),
            CostSpec::Curve { cum, .. } => cum.first().copied().unwrap_or(0),
            CostSpec::FromTrace { costs, .. } => costs.iter().copied().max().unwrap_or(0),
            CostSpec::FromIter { vals } => vals.first().copied().unwrap_or(0),
        }
    }

    /// Reference: exact cost_of_jobs for models with a closed definition
    /// (Scalar, Multiframe, non-extrapolating Curve).
    pub fn ref_cost(&self, n: usize) -> Option<u64> {
        match self {
            CostSpec::Scalar { c } => Some(c * n as u64),
            CostSpec::Multiframe { costs } => {
                if costs.is_empty() {
                    return Some(0);
                }
                Some((0..n).map(|i| costs[i % costs.len()]).sum())
            }
            CostSpec::Curve { cum, extrapolating: false } => {
                if cum.is_empty() || n == 0 {
                    return Some(0);
                }
                let l = cum.len();
                let x = (n / l) as u64;
                let y = n % l;
                Some(x * cum[l - 1] + if y > 0 { cum[y - 1] } else { 0 })
            }
            CostSpec::FromIter { vals } => {
                // the running maximum of the input, then as a plain curve
                let mut cum = vals.clone();
                for i in 1..cum.len() {
                    cum[i] = cum[i].max(cum[i - 1]);
                }
                CostSpec::Curve { cum, extrapolating: false }.ref_cost(n)
            }
            _ => None,
        }
    }
}

/// maximum total cost of any n consecutive entries of the trace (0 if n > len or n == 0)
pub fn trace_max_run(trace: &[u64], n: usize) -> u64 {
    if n == 0 || n > trace.len() {
        return 0;
    }
    let mut sum: u64 = trace[..n].iter().sum();
    let mut best = sum;
    for i in n..trace.len() {
        sum = sum + trace[i] - trace[i - n];
        best = best.max(sum);
    }
    best
}

/// strictly increasing, sub-additive cumulative prefix (each increment >= 1, cum(a+b) <= cum(a)+cum(b))
pub fn cum_strategy(maxlen: usize, cmax: u64) -> BoxedStrategy<Vec<u64>> {
    proptest::collection::vec(1u64..=cmax, 1..=maxlen)
        .prop_map(|costs| {
            // max-run sums of a job-cost trace are sub-additive and strictly increasing
            (1..=costs.len()).map(|n| trace_max_run(&costs, n)).collect()
        })
        .boxed()
}

pub fn cost_trace_strategy(maxlen: usize, cmax: u64) -> BoxedStrategy<Vec<u64>> {
    proptest::collection::vec(prop_oneof![3 => 1u64..=4, 2 => 1u64..=cmax], 1..=maxlen).boxed()
}

pub fn cost_strategy(cmax: u64, scalar_only: bool) -> BoxedStrategy<CostSpec> {
    if scalar_only {
        return (1..=cmax).prop_map(|c| CostSpec::Scalar { c }).boxed();
    }
    prop_oneof![
        4 => (1..=cmax).prop_map(|c| CostSpec::Scalar { c }),
        3 => proptest::collection::vec(1..=cmax, 1..=5).prop_map(|costs| CostSpec::Multiframe { costs }),
        2 => (cum_strategy(6, cmax), any::<bool>()).prop_map(|(cum, extrapolating)| CostSpec::Curve { cum, extrapolating }),
        2 => (cost_trace_strategy(10, cmax), 1usize..=6, any::<bool>())
            .prop_map(|(costs, max_n, extrapolating)| CostSpec::FromTrace { costs, max_n, extrapolating }),
    ]
    .boxed()
}

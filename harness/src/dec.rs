//! Byte-cursor decoders: the structure-aware second generator family used by
//! the coverage-guided fuzz target (independent of the proptest strategies).
//! Every decoder is total: running out of bytes yields zeros, which decode to
//! the smallest valid value.

use crate::arr::*;
use crate::cost::*;
use crate::supply_ref::*;
use crate::tasks::*;

pub struct Dec<'a> {
    data: &'a [u8],
    pos: usize,
}

impl<'a> Dec<'a> {
    pub fn new(data: &'a [u8]) -> Self {
        Dec { data, pos: 0 }
    }
    pub fn byte(&mut self) -> u8 {
        let b = self.data.get(self.pos).copied().unwrap_or(0);
        self.pos += 1;
        b
    }
    /// a value in lo..=hi (1, 2 or 4 bytes depending on the span; monotone in the bytes)
    pub fn range(&mut self, lo: u64, hi: u64) -> u64 {
        debug_assert!(lo <= hi);
        let span = hi - lo;
        if span == 0 {
            lo
        } else if span < 256 {
            lo + (self.byte() as u64 * (span + 1)) / 256
        } else if span < 65536 {
            let raw = ((self.byte() as u64) << 8) | self.byte() as u64;
            lo + raw * (span + 1) / 65536
        } else {
            let mut raw = 0u128;
            for _ in 0..4 {
                raw = (raw << 8) | self.byte() as u128;
            }
            lo + (raw * (span as u128 + 1) / (1u128 << 32)) as u64
        }
    }
    pub fn pick(&mut self, n: usize) -> usize {
        self.range(0, n as u64 - 1) as usize
    }
    pub fn flag(&mut self) -> bool {
        self.byte() & 1 == 1
    }
    pub fn vec<T>(&mut self, min: usize, max: usize, mut f: impl FnMut(&mut Dec<'a>) -> T) -> Vec<T> {
        let n = min + self.pick(max - min + 1);
        (0..n).map(|_| f(self)).collect()
    }
    pub fn exhausted(&self) -> bool {
        self.pos >= self.data.len()
    }
}

pub fn dec_dmin(d: &mut Dec, tmax: u64, superadditive: bool) -> Vec<u64> {
    let incs = d.vec(1, 6, |d| match d.pick(4) {
        0 => 0,
        1 => d.range(1, 4),
        _ => d.range(1, tmax),
    });
    let mut acc = 0;
    let mut v: Vec<u64> = incs
        .iter()
        .map(|x| {
            acc += x;
            acc
        })
        .collect();
    if *v.last().unwrap() == 0 {
        let l = v.len();
        v[l - 1] = 1;
    }
    if superadditive {
        superadditive_closure(&v, v.len())
    } else {
        v
    }
}

#[derive(Clone, Copy)]
pub struct DecArr {
    pub tmax: u64,
    pub never: bool,
    pub derived: bool,
    pub acp: bool,
}

pub fn dec_arr(d: &mut Dec, g: DecArr, depth: u32) -> ArrSpec {
    let tmax = g.tmax;
    let kinds = if depth == 0 { 5 } else { 12 };
    match d.pick(kinds) {
        0 => ArrSpec::Periodic { t: d.range(1, tmax) },
        1 => {
            let t = d.range(1, tmax);
            let j = match d.pick(3) {
                0 => 0,
                1 => d.range(0, tmax),
                _ => d.range(0, 4 * tmax),
            };
            ArrSpec::Sporadic { t, j }
        }
        2 => ArrSpec::Curve { dmin: dec_dmin(d, tmax, true), extrapolating: true },
        3 => {
            let sa = d.byte() % 4 != 0;
            ArrSpec::Curve { dmin: dec_dmin(d, tmax, sa), extrapolating: d.flag() }
        }
        4 => {
            if g.never && d.pick(3) == 0 {
                ArrSpec::Never
            } else if g.acp && d.flag() {
                let dmin = dec_dmin(d, tmax, true);
                let horizon = dmin.last().unwrap() + 1 + d.range(0, 3 * tmax);
                ArrSpec::AcpDirect { dmin, horizon }
            } else {
                ArrSpec::Sporadic { t: d.range(1, tmax), j: d.range(0, 2 * tmax) }
            }
        }
        5 | 6 => ArrSpec::Jittered { inner: dec_arr(d, g, depth - 1).boxed(), j: d.range(0, 3 * tmax) },
        7 => ArrSpec::Propagated { inner: dec_arr(d, g, depth - 1).boxed(), j: d.range(0, 3 * tmax) },
        8 => ArrSpec::Sum { a: dec_arr(d, g, depth - 1).boxed(), b: dec_arr(d, g, depth - 1).boxed() },
        9 => {
            let items = d.vec(1, 3, |d| dec_arr(d, g, depth - 1));
            if d.flag() {
                ArrSpec::VecOf { items }
            } else {
                ArrSpec::SliceOf { items }
            }
        }
        _ => {
            let inner = dec_arr(d, g, depth - 1);
            if !g.derived || inner.never_arrives() {
                return inner;
            }
            match d.pick(if g.acp { 4 } else { 2 }) {
                0 => ArrSpec::CurveOfJobs { inner: inner.boxed(), n: d.range(1, 13) as usize },
                1 => ArrSpec::CurveOfUntil { inner: inner.boxed(), h: d.range(1, 6 * tmax) },
                2 => ArrSpec::AcpOf { inner: inner.boxed(), h: d.range(1, 6 * tmax) },
                _ => ArrSpec::CurveFromAcp { inner: ArrSpec::AcpOf { inner: inner.boxed(), h: d.range(1, 6 * tmax) }.boxed() },
            }
        }
    }
}

pub fn dec_cost(d: &mut Dec, cmax: u64, scalar_only: bool, valid_multiframe: bool) -> CostSpec {
    if scalar_only {
        return CostSpec::Scalar { c: d.range(1, cmax) };
    }
    match d.pick(4) {
        0 | 1 => CostSpec::Scalar { c: d.range(1, cmax) },
        2 => {
            let mut costs = d.vec(1, 4, |d| d.range(1, cmax));
            if valid_multiframe {
                costs.sort_unstable_by(|a, b| b.cmp(a));
            }
            CostSpec::Multiframe { costs }
        }
        _ => {
            if valid_multiframe {
                CostSpec::Scalar { c: d.range(1, cmax) }
            } else {
                let costs = d.vec(1, 8, |d| d.range(1, cmax));
                CostSpec::FromTrace { costs, max_n: d.range(1, 6) as usize, extrapolating: d.flag() }
            }
        }
    }
}

pub fn dec_supply(d: &mut Dec, pmax: u64) -> SupplySpec {
    match d.pick(4) {
        0 => SupplySpec::Dedicated,
        1 => {
            let p = d.range(1, pmax);
            SupplySpec::Periodic { q: d.range(1, p), p }
        }
        _ => {
            let p = d.range(1, pmax);
            let dl = d.range(1, p);
            SupplySpec::Constrained { q: d.range(1, dl), d: dl, p }
        }
    }
}

pub fn dec_tasks(d: &mut Dec, g: DecArr, nmax: usize, cmax: u64) -> Vec<TaskSpec> {
    let target = d.range(300, 1150) as f64 / 1000.0;
    let mut ts = d.vec(1, nmax, |d| {
        let arr = dec_arr(d, g, 1);
        let wcet = d.range(1, cmax);
        let scale = arr.scale().max(2);
        let deadline = 1 + d.range(0, 3 * scale.min(400));
        let picks: Vec<u8> = (0..3).map(|_| d.byte()).collect();
        TaskSpec { arr, wcet, prio: d.range(0, 3) as u32, deadline, segs: split_segments(wcet, &picks), max_np: d.range(1, wcet) }
    });
    steer_utilisation(&mut ts, target);
    ts
}

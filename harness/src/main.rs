fn main(){ println!("hi"); }


use rtaverif::engine::{self, Tier};
use rtaverif::{fuzz, props};

fn usage() -> ! {
    eprintln!("usage: rtaverif check <ID> [--tier quick|thorough] [--seed N] | replay <ID> <file> | list");
    std::process::exit(2)
}

fn main() {
    engine::install_panic_hook();
    let args: Vec<String> = std::env::args().skip(1).collect();
    if args.is_empty() {
        usage();
    }
    match args[0].as_str() {
        "child" => {
            rtaverif::props::c20::child_main();
        }
        "fuzz-replay" => {
            let file = args.get(1).unwrap_or_else(|| usage());
            std::process::exit(fuzz::fuzz_replay(file));
        }
        "fuzz-evidence" => {
            let id = args.get(1).unwrap_or_else(|| usage());
            let log = args.get(2).unwrap_or_else(|| usage());
            let verdict = args.get(3).map(|s| s.as_str()).unwrap_or("no violation");
            std::env::set_var("RTAVERIF_FUZZ_ONLY", id);
            std::process::exit(fuzz::fuzz_evidence(id, log, verdict));
        }
        "fuzz-seed" => {
            let id = args.get(1).unwrap_or_else(|| usage());
            let dir = args.get(2).unwrap_or_else(|| usage());
            let n: usize = args.get(3).and_then(|s| s.parse().ok()).unwrap_or(64);
            let seed: u64 = args.get(4).and_then(|s| s.parse().ok()).unwrap_or(1);
            fuzz::fuzz_seed(id, dir, n, seed);
        }
        "list" => {
            for id in props::all_ids() {
                println!("{}", id);
            }
        }
        "check" => {
            let id = args.get(1).unwrap_or_else(|| usage());
            let mut tier = Tier::Quick;
            let mut seed = 1u64;
            let mut i = 2;
            while i < args.len() {
                match args[i].as_str() {
                    "--tier" => {
                        tier = match args.get(i + 1).map(|s| s.as_str()) {
                            Some("quick") => Tier::Quick,
                            Some("thorough") => Tier::Thorough,
                            _ => usage(),
                        };
                        i += 2;
                    }
                    "--seed" => {
                        // any integer is accepted (negative values wrap); anything else is hashed
                        seed = match args.get(i + 1) {
                            Some(s) => s.parse::<u64>().ok().or_else(|| s.parse::<i64>().ok().map(|x| x as u64)).unwrap_or_else(|| {
                                s.bytes().fold(0xcbf29ce484222325u64, |h, b| (h ^ b as u64).wrapping_mul(0x100000001b3))
                            }),
                            None => usage(),
                        };
                        i += 2;
                    }
                    _ => usage(),
                }
            }
            let p = props::property(id).unwrap_or_else(|| {
                eprintln!("unknown property {}", id);
                std::process::exit(2)
            });
            engine::start_watchdog(tier.pick(1500, 6 * 3600));
            std::process::exit(engine::run_property(std::sync::Arc::new(p), tier, seed));
        }
        "replay" => {
            let id = args.get(1).unwrap_or_else(|| usage());
            let file = args.get(2).unwrap_or_else(|| usage());
            let p = props::property(id).unwrap_or_else(|| {
                eprintln!("unknown property {}", id);
                std::process::exit(2)
            });
            std::process::exit(engine::run_replay(&p, file));
        }
        _ => usage(),
    }
}

#![allow(dead_code)]
mod arr;
mod cost;
mod engine;
mod props;
mod ros;
mod sim_uni;
mod supply_ref;
mod tasks;

use engine::Tier;

fn usage() -> ! {
    eprintln!("usage: rtaverif check <ID> [--tier quick|thorough] [--seed N] | replay <ID> <file> | list");
    std::process::exit(2)
}

fn main() {
    engine::install_panic_hook();
    let args: Vec<String> = std::env::args().skip(1).collect();
    if args.is_empty() {
        usage();
    }
    match args[0].as_str() {
        "child" => {
            props::c20::child_main();
        }
        "list" => {
            for id in props::all_ids() {
                println!("{}", id);
            }
        }
        "check" => {
            let id = args.get(1).unwrap_or_else(|| usage());
            let mut tier = Tier::Quick;
            let mut seed = 1u64;
            let mut i = 2;
            while i < args.len() {
                match args[i].as_str() {
                    "--tier" => {
                        tier = match args.get(i + 1).map(|s| s.as_str()) {
                            Some("quick") => Tier::Quick,
                            Some("thorough") => Tier::Thorough,
                            _ => usage(),
                        };
                        i += 2;
                    }
                    "--seed" => {
                        seed = args.get(i + 1).and_then(|s| s.parse().ok()).unwrap_or_else(|| usage());
                        i += 2;
                    }
                    _ => usage(),
                }
            }
            let p = props::property(id).unwrap_or_else(|| {
                eprintln!("unknown property {}", id);
                std::process::exit(2)
            });
            engine::start_watchdog(tier.pick(1500, 6 * 3600));
            std::process::exit(engine::run_property(std::sync::Arc::new(p), tier, seed));
        }
        "replay" => {
            let id = args.get(1).unwrap_or_else(|| usage());
            let file = args.get(2).unwrap_or_else(|| usage());
            let p = props::property(id).unwrap_or_else(|| {
                eprintln!("unknown property {}", id);
                std::process::exit(2)
            });
            std::process::exit(engine::run_replay(&p, file));
        }
        _ => usage(),
    }
}

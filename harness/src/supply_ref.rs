//! Supply specs: builder (crate objects) and reference semantics
//! (budget placements, reference SBF computed from (Q, D, P) alone).

use std::rc::Rc;

use proptest::prelude::*;
use response_time_analysis::supply::{self, SupplyBound};
use response_time_analysis::time::{Duration, Service};
use serde::{Deserialize, Serialize};

pub fn d(x: u64) -> Duration {
    Duration::from(x)
}
pub fn s(x: u64) -> Service {
    Service::from(x)
}
pub fn du(x: Duration) -> u64 {
    u64::from(x)
}
pub fn su(x: Service) -> u64 {
    u64::from(x)
}

#[derive(Clone, Debug, Serialize, Deserialize, PartialEq, Eq, Hash)]
pub enum SupplySpec {
    Dedicated,
    Periodic { q: u64, p: u64 },
    Constrained { q: u64, d: u64, p: u64 },
    /// user-defined supply: 0/1 service increments per time unit, `incr`
    /// first and then `cycle` forever (cycle contains at least one 1);
    /// implements only `provided_service`, so the trait's default
    /// `service_time` is exercised
    UserSteps { incr: Vec<u8>, cycle: Vec<u8> },
}

/// A supply that only implements `provided_service`.
pub struct UserSupply {
    pub incr: Vec<u8>,
    pub cycle: Vec<u8>,
}

impl UserSupply {
    pub fn sbf(&self, delta: u64) -> u64 {
        let l = self.incr.len() as u64;
        let head: u64 = self.incr.iter().take(delta.min(l) as usize).map(|x| *x as u64).sum();
        if delta <= l {
            return head;
        }
        let rest = delta - l;
        let cl = self.cycle.len() as u64;
        let per: u64 = self.cycle.iter().map(|x| *x as u64).sum();
        let full = rest / cl;
        let part: u64 = self.cycle.iter().take((rest % cl) as usize).map(|x| *x as u64).sum();
        head + full * per + part
    }
}

impl SupplyBound for UserSupply {
    fn provided_service(&self, delta: Duration) -> Service {
        s(self.sbf(du(delta)))
    }
}

/// Wrapper that hides the specialised `service_time` of a crate supply, so
/// that the trait's default implementation is used.
pub struct DefaultOnly<T: SupplyBound>(pub T);
impl<T: SupplyBound> SupplyBound for DefaultOnly<T> {
    fn provided_service(&self, delta: Duration) -> Service {
        self.0.provided_service(delta)
    }
}

impl SupplySpec {
    pub fn build(&self) -> Rc<dyn SupplyBound> {
        match self {
            SupplySpec::Dedicated => Rc::new(supply::Dedicated::new()),
            SupplySpec::Periodic { q, p } => Rc::new(supply::Periodic::new(s(*q), d(*p))),
            SupplySpec::Constrained { q, d: dl, p } => {
                Rc::new(supply::Constrained::new(s(*q), d(*dl), d(*p)))
            }
            SupplySpec::UserSteps { incr, cycle } => Rc::new(UserSupply {
                incr: incr.clone(),
                cycle: cycle.clone(),
            }),
        }
    }

    /// (Q, D, P) view; Dedicated = (1,1,1)
    pub fn qdp(&self) -> Option<(u64, u64, u64)> {
        match self {
            SupplySpec::Dedicated => Some((1, 1, 1)),
            SupplySpec::Periodic { q, p } => Some((*q, *p, *p)),
            SupplySpec::Constrained { q, d, p } => Some((*q, *d, *p)),
            SupplySpec::UserSteps { .. } => None,
        }
    }

    pub fn is_dedicated(&self) -> bool {
        matches!(self, SupplySpec::Dedicated)
    }

    /// Reference SBF from the parameters alone.
    pub fn ref_sbf(&self, delta: u64) -> u64 {
        match self {
            SupplySpec::UserSteps { incr, cycle } => UserSupply {
                incr: incr.clone(),
                cycle: cycle.clone(),
            }
            .sbf(delta),
            _ => {
                let (q, dl, p) = self.qdp().unwrap();
                ref_sbf(q, dl, p, delta)
            }
        }
    }

    /// Tabulate the reference SBF for 0..=upto.
    pub fn ref_table(&self, upto: u64) -> Vec<u64> {
        match self {
            SupplySpec::Dedicated => (0..=upto).collect(),
            SupplySpec::UserSteps { .. } => (0..=upto).map(|x| self.ref_sbf(x)).collect(),
            _ => {
                let (q, dl, p) = self.qdp().unwrap();
                ref_sbf_table(q, dl, p, upto)
            }
        }
    }
}

/// Minimum service in any window of length `delta` over all placements of
/// exactly `q` budget slots inside the first `dl` slots of every period of
/// length `p`: the minimum over placements is independent per period and
/// equals max(0, q - #eligible slots of the period outside the window); the
/// window start only matters modulo p.
pub fn ref_sbf(q: u64, dl: u64, p: u64, delta: u64) -> u64 {
    if delta == 0 {
        return 0;
    }
    let mut best = u64::MAX;
    for a in 0..p {
        let b = a + delta; // window [a, b)
        let mut total = 0u64;
        let mut k = 0u64;
        while k * p < b {
            let e0 = k * p;
            let e1 = k * p + dl; // eligible slots [e0, e1)
            // eligible slots inside the window
            let lo = e0.max(a);
            let hi = e1.min(b);
            let inside = hi.saturating_sub(lo);
            let outside = dl - inside;
            total += q.saturating_sub(outside);
            k += 1;
        }
        best = best.min(total);
    }
    best
}

pub fn ref_sbf_table(q: u64, dl: u64, p: u64, upto: u64) -> Vec<u64> {
    // the minimum over window starts of a sum over periods; computed
    // incrementally per start: extending the window by one slot adds 1 iff
    // the new slot is eligible and the period's outside-count drops below q.
    let n = upto as usize;
    let mut best = vec![u64::MAX; n + 1];
    best[0] = 0;
    for a in 0..p {
        // inside[k] = eligible slots of period k inside [a, a+len)
        let mut total = 0u64;
        let mut inside_cur = 0u64; // for the current period
        let mut cur_k = a / p; // == 0
        let _ = cur_k;
        cur_k = 0;
        // slots of period 0 before a are outside: handled by counting inside only
        for len in 1..=n as u64 {
            let slot = a + len - 1;
            let k = slot / p;
            if k != cur_k {
                cur_k = k;
                inside_cur = 0;
            }
            let off = slot - k * p;
            if off < dl {
                inside_cur += 1;
                // service of this period = max(0, q - (dl - inside))
                let outside = dl - inside_cur;
                if outside < q {
                    total += 1;
                }
            }
            if total < best[len as usize] {
                best[len as usize] = total;
            }
        }
    }
    best
}

/// Least t with table[t] >= demand (table must be long enough).
pub fn ref_service_time(table: &[u64], demand: u64) -> Option<u64> {
    table.iter().position(|x| *x >= demand).map(|x| x as u64)
}

// ---------------------------------------------------------------------------
// budget placements (explicit reservation schedules)

#[derive(Clone, Debug, Serialize, Deserialize, PartialEq, Eq, Hash)]
pub enum PlaceMode {
    Early,
    Late,
    /// arbitrary subset, described by a permutation seed vector
    Subset { picks: Vec<u8> },
    /// contiguous block starting at offset (clamped)
    At { off: u64 },
}

#[derive(Clone, Debug, Serialize, Deserialize, PartialEq, Eq, Hash)]
pub struct Placement {
    /// the timeline starts `phase` slots into a period
    pub phase: u64,
    /// per-period modes, consumed cyclically
    pub modes: Vec<PlaceMode>,
}

impl Placement {
    /// The classical worst case: budget as early as possible in the first
    /// period, as late as possible afterwards; timeline starts right after
    /// the first budget.
    pub fn early_then_late(q: u64) -> Placement {
        Placement {
            phase: q,
            modes: vec![PlaceMode::Early, PlaceMode::Late, PlaceMode::Late, PlaceMode::Late],
        }
    }
}

/// Slots (true = service) of a reservation (q, dl, p) over `len` slots.
/// The mode list is consumed cyclically, except that a list that starts with
/// Early and continues with Late only keeps using Late (early-then-late).
pub fn place(q: u64, dl: u64, p: u64, pl: &Placement, len: usize) -> Vec<bool> {
    let phase = pl.phase % p;
    let mut out = vec![false; len];
    let periods = (len as u64 + phase) / p + 2;
    for k in 0..periods {
        let mode = if pl.modes.is_empty() {
            &PlaceMode::Early
        } else if (k as usize) < pl.modes.len() {
            &pl.modes[k as usize]
        } else {
            // cycle through everything but the first element
            if pl.modes.len() == 1 {
                &pl.modes[0]
            } else {
                &pl.modes[1 + ((k as usize - 1) % (pl.modes.len() - 1))]
            }
        };
        let mut chosen: Vec<u64> = match mode {
            PlaceMode::Early => (0..q).collect(),
            PlaceMode::Late => ((dl - q)..dl).collect(),
            PlaceMode::At { off } => {
                let o = (*off).min(dl - q);
                (o..o + q).collect()
            }
            PlaceMode::Subset { picks } => {
                // Fisher-Yates driven by the picks vector (cyclic)
                let mut slots: Vec<u64> = (0..dl).collect();
                for i in 0..(q as usize) {
                    let r = if picks.is_empty() { 0 } else { picks[i % picks.len()] as usize };
                    let j = i + r % (dl as usize - i);
                    slots.swap(i, j);
                }
                slots[..q as usize].to_vec()
            }
        };
        chosen.sort();
        for x in chosen {
            let t = (k * p + x) as i64 - phase as i64;
            if t >= 0 && (t as usize) < len {
                out[t as usize] = true;
            }
        }
    }
    out
}

pub fn place_for(spec: &SupplySpec, pl: &Placement, len: usize) -> Vec<bool> {
    match spec {
        SupplySpec::UserSteps { .. } => panic!("no placements for user supplies"),
        SupplySpec::Dedicated => vec![true; len],
        _ => {
            let (q, dl, p) = spec.qdp().unwrap();
            place(q, dl, p, pl, len)
        }
    }
}

// ---------------------------------------------------------------------------
// strategies

pub fn place_mode_strategy() -> BoxedStrategy<PlaceMode> {
    prop_oneof![
        2 => Just(PlaceMode::Early),
        3 => Just(PlaceMode::Late),
        2 => proptest::collection::vec(any::<u8>(), 1..6).prop_map(|picks| PlaceMode::Subset { picks }),
        1 => (0u64..64).prop_map(|off| PlaceMode::At { off }),
    ]
    .boxed()
}

pub fn placement_strategy() -> BoxedStrategy<Placement> {
    prop_oneof![
        // early then late with arbitrary phase
        3 => (0u64..64).prop_map(|phase| Placement { phase, modes: vec![PlaceMode::Early, PlaceMode::Late] }),
        3 => (0u64..64, proptest::collection::vec(place_mode_strategy(), 1..5))
            .prop_map(|(phase, modes)| Placement { phase, modes }),
    ]
    .boxed()
}

/// reservation parameters with p <= pmax; kind: periodic / constrained
pub fn reservation_strategy(pmax: u64) -> BoxedStrategy<SupplySpec> {
    prop_oneof![
        (1..=pmax)
            .prop_flat_map(|p| (Just(p), 1..=p))
            .prop_map(|(p, q)| SupplySpec::Periodic { q, p }),
        (1..=pmax)
            .prop_flat_map(|p| (Just(p), 1..=p))
            .prop_flat_map(|(p, dl)| (Just(p), Just(dl), 1..=dl))
            .prop_map(|(p, dl, q)| SupplySpec::Constrained { q, d: dl, p }),
    ]
    .boxed()
}

/// any crate supply (dedicated, periodic, constrained) with p <= pmax
pub fn supply_strategy(pmax: u64) -> BoxedStrategy<SupplySpec> {
    prop_oneof![
        2 => Just(SupplySpec::Dedicated),
        5 => reservation_strategy(pmax),
    ]
    .boxed()
}

pub fn user_supply_strategy() -> BoxedStrategy<SupplySpec> {
    (
        proptest::collection::vec(0u8..=1, 0..12),
        proptest::collection::vec(0u8..=1, 1..8),
        0usize..8,
    )
        .prop_map(|(incr, mut cycle, pos)| {
            if cycle.iter().all(|x| *x == 0) {
                let l = cycle.len();
                cycle[pos % l] = 1;
            }
            SupplySpec::UserSteps { incr, cycle }
        })
        .boxed()
}

//! Engine: deterministic, sharded proptest runs; shrinking to JSON replay
//! files; evidence; known findings; panic / step-budget capture.

use std::cell::{Cell, RefCell};
use std::collections::{BTreeMap, HashSet};
use std::fmt::Debug;
use std::hash::{Hash, Hasher};
use std::panic::{catch_unwind, AssertUnwindSafe};
use std::sync::Arc;
use std::time::Instant;

use proptest::strategy::BoxedStrategy;
use proptest::test_runner::{Config, RngAlgorithm, TestCaseError, TestError, TestRng, TestRunner};
use serde::de::DeserializeOwned;
use serde::Serialize;
use serde_json::{json, Value};

pub const SHARDS: u64 = 16;
pub const VERIF_DIR: &str = "/verif";

#[derive(Clone, Copy, PartialEq, Eq, Debug)]
pub enum Tier {
    Quick,
    Thorough,
}

impl Tier {
    pub fn name(self) -> &'static str {
        match self {
            Tier::Quick => "quick",
            Tier::Thorough => "thorough",
        }
    }
    pub fn pick<T>(self, quick: T, thorough: T) -> T {
        match self {
            Tier::Quick => quick,
            Tier::Thorough => thorough,
        }
    }
}

/// What a check function reports for a case on which the property held.
#[derive(Default, Clone, Debug)]
pub struct Outcome {
    /// non-trivial by the property's stated rule
    pub nontrivial: bool,
    /// labels counted into the evidence histogram
    pub labels: Vec<&'static str>,
    /// inner evaluations (schedules simulated, placements, queries, offsets scanned ...)
    pub inner: u64,
    /// known-finding keys this case matched (the case is excluded, the search continues)
    pub known: Vec<String>,
}

impl Outcome {
    pub fn label(&mut self, l: &'static str) {
        if !self.labels.contains(&l) {
            self.labels.push(l);
        }
    }
    pub fn label_if(&mut self, cond: bool, l: &'static str) {
        if cond {
            self.label(l)
        }
    }
}

/// Err(message) = the property is violated on this case.
pub type CheckResult = Result<Outcome, String>;

// ---------------------------------------------------------------------------
// panic capture and step budgets

thread_local! {
    static LAST_PANIC: RefCell<Option<String>> = const { RefCell::new(None) };
}

pub fn install_panic_hook() {
    std::panic::set_hook(Box::new(|info| {
        let msg = if let Some(s) = info.payload().downcast_ref::<&str>() {
            s.to_string()
        } else if let Some(s) = info.payload().downcast_ref::<String>() {
            s.clone()
        } else {
            "<non-string panic>".to_string()
        };
        let loc = info
            .location()
            .map(|l| format!("{}:{}", l.file(), l.line()))
            .unwrap_or_default();
        LAST_PANIC.with(|p| *p.borrow_mut() = Some(format!("{} @ {}", msg, loc)));
    }));
}

/// default per-call step budget (loop iterations inside the crate)
pub const STEP_BUDGET: u64 = 20_000_000;

/// Run a piece of code that calls into the crate; a panic (including a
/// step-budget exhaustion) becomes an `Err(description)`.
pub fn guard<T>(f: impl FnOnce() -> T) -> Result<T, String> {
    guard_with_budget(STEP_BUDGET, f)
}

pub fn guard_with_budget<T>(budget: u64, f: impl FnOnce() -> T) -> Result<T, String> {
    response_time_analysis::verif_hooks::set_budget(budget);
    LAST_PANIC.with(|p| *p.borrow_mut() = None);
    let r = catch_unwind(AssertUnwindSafe(f));
    response_time_analysis::verif_hooks::set_budget(u64::MAX);
    match r {
        Ok(v) => Ok(v),
        Err(_) => Err(LAST_PANIC
            .with(|p| p.borrow_mut().take())
            .unwrap_or_else(|| "<panic>".to_string())),
    }
}

pub fn is_budget_panic(msg: &str) -> bool {
    msg.contains("verif-step-budget")
}

// ---------------------------------------------------------------------------
// known findings

#[derive(Clone, Debug, serde::Deserialize)]
pub struct KnownEntry {
    pub property: String,
    pub key: String,
    pub status: String, // "known" | "fixed"
    pub what: String,
    #[serde(default)]
    pub replay: Option<String>,
    #[serde(default)]
    pub commit: Option<String>,
}

thread_local! {
    static KNOWN_CACHE: RefCell<Option<Vec<KnownEntry>>> = const { RefCell::new(None) };
}

pub fn known_entries() -> Vec<KnownEntry> {
    KNOWN_CACHE.with(|c| {
        if c.borrow().is_none() {
            let path = format!("{}/known_findings.json", VERIF_DIR);
            let v: Vec<KnownEntry> = match std::fs::read_to_string(&path) {
                Ok(s) => {
                    let val: Value = serde_json::from_str(&s).expect("known_findings.json parses");
                    serde_json::from_value(val["findings"].clone()).expect("known_findings.json shape")
                }
                Err(_) => vec![],
            };
            *c.borrow_mut() = Some(v);
        }
        c.borrow().clone().unwrap()
    })
}

/// Is `key` listed as a *known* (unrepaired) finding?  `fixed` entries suppress nothing.
pub fn is_known(key: &str) -> bool {
    known_entries()
        .iter()
        .any(|e| e.key == key && e.status == "known")
}

/// Helper for check functions: a failure with a known-finding signature.
/// Returns Ok(outcome tagged) if listed as known, otherwise Err(msg).
pub fn known_or_violation(key: &str, msg: String, mut out: Outcome) -> CheckResult {
    if is_known(key) {
        out.known.push(key.to_string());
        Ok(out)
    } else {
        Err(format!("[{}] {}", key, msg))
    }
}

// ---------------------------------------------------------------------------
// sub-checks

pub struct ShardArgs {
    pub tier: Tier,
    pub seed: u64,
    pub shard: u64,
}

#[derive(Default)]
pub struct ShardResult {
    pub evaluations: u64,
    pub rejected: u64,
    pub nontrivial: HashSet<u64>,
    pub labels: BTreeMap<String, u64>,
    pub inner: u64,
    pub known: BTreeMap<String, u64>,
    pub samples: Vec<Value>,
    pub failure: Option<(Value, String)>,
}

pub struct SubCheck {
    pub name: &'static str,
    pub run_shard: Box<dyn Fn(&ShardArgs) -> ShardResult + Send + Sync>,
    pub replay: Box<dyn Fn(&Value) -> Result<CheckResult, String> + Send + Sync>,
    /// second engine (coverage-guided fuzzing): decode a byte string into a case with the sub-check's
    /// byte decoder (dec.rs) and run the check on it; None if the sub-check has no decoder
    pub fuzz_one: Box<dyn Fn(&[u8]) -> Option<(Value, CheckResult)> + Send + Sync>,
    pub has_decoder: bool,
}

fn hash_str(s: &str) -> u64 {
    let mut h = std::collections::hash_map::DefaultHasher::new();
    s.hash(&mut h);
    h.finish()
}

fn seed_bytes(seed: u64, shard: u64, name: &str) -> [u8; 32] {
    // splitmix64 over (seed, shard, name-hash): a pure function of its inputs
    let mut x = seed
        .wrapping_mul(0x9E37_79B9_7F4A_7C15)
        .wrapping_add(shard.wrapping_mul(0xBF58_476D_1CE4_E5B9))
        ^ fnv(name);
    let mut out = [0u8; 32];
    for chunk in out.chunks_mut(8) {
        x = x.wrapping_add(0x9E37_79B9_7F4A_7C15);
        let mut z = x;
        z = (z ^ (z >> 30)).wrapping_mul(0xBF58_476D_1CE4_E5B9);
        z = (z ^ (z >> 27)).wrapping_mul(0x94D0_49BB_1331_11EB);
        z ^= z >> 31;
        chunk.copy_from_slice(&z.to_le_bytes());
    }
    out
}

fn fnv(s: &str) -> u64 {
    let mut h: u64 = 0xcbf29ce484222325;
    for b in s.bytes() {
        h ^= b as u64;
        h = h.wrapping_mul(0x100000001b3);
    }
    h
}

/// Run a check function on a case, converting a stray panic into a failure.
pub fn run_check<C>(check: &impl Fn(&C) -> CheckResult, case: &C) -> CheckResult {
    LAST_PANIC.with(|p| *p.borrow_mut() = None);
    match catch_unwind(AssertUnwindSafe(|| check(case))) {
        Ok(r) => r,
        Err(_) => Err(format!(
            "unexpected panic while checking: {}",
            LAST_PANIC
                .with(|p| p.borrow_mut().take())
                .unwrap_or_else(|| "<panic>".into())
        )),
    }
}

/// Build a sub-check from a strategy constructor (called inside the shard
/// thread), per-shard case counts (quick, thorough) and a check function.
pub fn subcheck<C, F>(
    name: &'static str,
    cases: (u32, u32),
    strat: fn(Tier) -> BoxedStrategy<C>,
    check: F,
) -> SubCheck
where
    C: Debug + Clone + Serialize + DeserializeOwned + 'static,
    F: Fn(&C) -> CheckResult + Send + Sync + Copy + 'static,
{
    let run_shard = move |a: &ShardArgs| -> ShardResult {
        let ncases = a.tier.pick(cases.0, cases.1);
        let scale: f64 = std::env::var("VERIF_CASE_SCALE")
            .ok()
            .and_then(|s| s.parse().ok())
            .unwrap_or(1.0);
        let ncases = ((ncases as f64) * scale).ceil().max(1.0) as u32;
        let config = Config {
            cases: ncases,
            max_shrink_iters: 1500,
            max_shrink_time: 0,
            failure_persistence: None,
            max_local_rejects: 1 << 20,
            max_global_rejects: 1 << 20,
            max_flat_map_regens: 1_000_000,
            verbose: 0,
            result_cache: proptest::test_runner::basic_result_cache,
            source_file: None,
            test_name: None,
            ..Config::default()
        };
        let rng = TestRng::from_seed(RngAlgorithm::ChaCha, &seed_bytes(a.seed, a.shard, name));
        let mut runner = TestRunner::new_with_rng(config, rng);
        let strategy = strat(a.tier);
        let res = RefCell::new(ShardResult::default());
        let failed = Cell::new(false);
        let outcome = runner.run(&strategy, |case: C| {
            let r = run_check(&check, &case);
            if failed.get() {
                // shrinking phase: do not count
                return r.map(|_| ()).map_err(TestCaseError::fail);
            }
            let mut sr = res.borrow_mut();
            sr.evaluations += 1;
            match r {
                Ok(o) => {
                    sr.inner += o.inner;
                    for l in &o.labels {
                        *sr.labels.entry(l.to_string()).or_default() += 1;
                    }
                    for k in &o.known {
                        *sr.known.entry(k.clone()).or_default() += 1;
                    }
                    if o.nontrivial && o.known.is_empty() {
                        let js = serde_json::to_string(&case).unwrap_or_default();
                        let fresh = sr.nontrivial.insert(hash_str(&js));
                        if fresh && sr.samples.len() < 2 {
                            sr.samples
                                .push(json!({"subcheck": name, "case": serde_json::to_value(&case).unwrap_or(Value::Null)}));
                        }
                    }
                    Ok(())
                }
                Err(msg) => {
                    failed.set(true);
                    Err(TestCaseError::fail(msg))
                }
            }
        });
        let mut sr = res.into_inner();
        match outcome {
            Ok(()) => {}
            Err(TestError::Fail(reason, case)) => {
                // re-run the minimal case to get its own message
                let msg = match run_check(&check, &case) {
                    Err(m) => m,
                    Ok(_) => format!("{}", reason),
                };
                sr.failure = Some((serde_json::to_value(&case).unwrap_or(Value::Null), msg));
            }
            Err(TestError::Abort(reason)) => {
                // too many rejects: generator problem, not a violation
                eprintln!("note: shard {} of {} aborted: {}", a.shard, name, reason);
                sr.rejected += 1;
            }
        }
        sr
    };
    let replay = move |v: &Value| -> Result<CheckResult, String> {
        let case: C = serde_json::from_value(v.clone()).map_err(|e| format!("cannot decode case: {}", e))?;
        Ok(run_check(&check, &case))
    };
    // no byte decoder by default: the sub-check is then not reachable from the fuzz target
    let fuzz_one = |_: &[u8]| -> Option<(Value, CheckResult)> { None };
    SubCheck {
        name,
        run_shard: Box::new(run_shard),
        replay: Box::new(replay),
        fuzz_one: Box::new(fuzz_one),
        has_decoder: false,
    }
}

impl SubCheck {
    /// Attach a byte decoder (the structure-aware generator of the coverage-guided fuzz target).
    pub fn with_decoder<C, F>(mut self, decode: fn(&mut crate::dec::Dec) -> C, check: F) -> SubCheck
    where
        C: Debug + Clone + Serialize + DeserializeOwned + 'static,
        F: Fn(&C) -> CheckResult + Send + Sync + Copy + 'static,
    {
        self.fuzz_one = Box::new(move |data: &[u8]| {
            let mut d = crate::dec::Dec::new(data);
            let case = decode(&mut d);
            let r = run_check(&check, &case);
            Some((serde_json::to_value(&case).unwrap_or(Value::Null), r))
        });
        self.has_decoder = true;
        self
    }
}

// ---------------------------------------------------------------------------
// properties

pub struct PropertyDef {
    pub id: &'static str,
    pub rule: String,
    pub assumptions: Vec<String>,
    pub subchecks: Vec<SubCheck>,
    /// extra, non-generated stage (e.g. exhaustive enumeration); returns
    /// (evaluations, description, violation message)
    pub extra: Option<Box<dyn Fn(Tier, u64) -> ExtraResult + Send + Sync>>,
}

#[derive(Default)]
pub struct ExtraResult {
    pub evaluations: u64,
    pub nontrivial: u64,
    pub note: String,
    pub exhaustive: bool,
    pub failure: Option<(Value, String)>,
    /// the sub-check whose case format (and replay function) the failure uses
    pub replay_subcheck: &'static str,
}

/// Directory for evidence and replay files; `VERIF_SCRATCH=<dir>` redirects
/// both (used when the checks are run against seeded mutants, so that the
/// committed evidence is only ever written from the unchanged tree).
pub fn out_dir(kind: &str) -> String {
    match std::env::var("VERIF_SCRATCH") {
        Ok(dir) if !dir.is_empty() => format!("{}/{}", dir, kind),
        _ => format!("{}/{}", VERIF_DIR, kind),
    }
}

pub fn write_replay(id: &str, sub: &str, case: &Value, msg: &str) -> String {
    let body = json!({"property": id, "subcheck": sub, "case": case, "message": msg});
    let s = serde_json::to_string_pretty(&body).unwrap();
    let path = format!("{}/{}-{}-{:016x}.json", out_dir("replays"), id, sub, hash_str(&s));
    let _ = std::fs::create_dir_all(out_dir("replays"));
    std::fs::write(&path, s).expect("write replay");
    path
}

/// Run a property; returns the process exit code.
pub fn run_property(p: Arc<PropertyDef>, tier: Tier, seed: u64) -> i32 {
    let mut abandoned = 0u64;
    let start = Instant::now();
    let mut violations: Vec<(String, String)> = vec![]; // (replay path, msg)
    let mut known_printed: HashSet<String> = HashSet::new();

    // 1. replay the saved reproductions of known findings of this property
    for e in known_entries().iter().filter(|e| e.property == p.id) {
        if e.status == "fixed" {
            // regression replay of a repaired defect: suppresses nothing
            if let Some(rp) = &e.replay {
                let path = format!("{}/{}", VERIF_DIR, rp);
                match replay_file(&p, &path) {
                    Ok(Ok(_)) => {}
                    Ok(Err(msg)) => {
                        println!("VIOLATION property={} replay={}", p.id, path);
                        println!("  (repaired defect {} is back: {})", e.key, msg);
                        violations.push((path.clone(), msg));
                    }
                    Err(err) => println!("note: cannot replay {}: {}", rp, err),
                }
            }
            continue;
        }
        if e.status != "known" {
            continue;
        }
        if e.replay.is_none() {
            // a listed finding without a saved reproduction (a general form of other entries)
            println!("KNOWN-FINDING: property={} {} -- {}", p.id, e.key, e.what);
            known_printed.insert(e.key.clone());
        }
        if let Some(rp) = &e.replay {
            let path = format!("{}/{}", VERIF_DIR, rp);
            match replay_file(&p, &path) {
                Ok(Ok(o)) if o.known.contains(&e.key) => {
                    println!("KNOWN-FINDING: property={} {} -- {}", p.id, e.key, e.what);
                    known_printed.insert(e.key.clone());
                }
                Ok(Ok(_)) => {
                    println!("note: known finding {} no longer reproduces on this tree ({})", e.key, rp);
                }
                Ok(Err(msg)) => {
                    // fails, but not with the recorded signature: a different violation
                    println!("VIOLATION property={} replay={}", p.id, path);
                    println!("  (saved reproduction of {} now fails differently: {})", e.key, msg);
                    violations.push((path.clone(), msg));
                }
                Err(err) => {
                    println!("note: cannot replay {}: {}", rp, err);
                }
            }
        }
    }

    // 2. generated search
    let mut total_eval = 0u64;
    let mut total_inner = 0u64;
    let mut nontrivial: HashSet<(usize, u64)> = HashSet::new();
    let mut labels: BTreeMap<String, u64> = BTreeMap::new();
    let mut known: BTreeMap<String, u64> = BTreeMap::new();
    let mut samples: Vec<Value> = vec![];
    let mut per_sub: BTreeMap<String, Value> = BTreeMap::new();
    let only = std::env::var("VERIF_ONLY").ok();
    for (si, sc) in p.subchecks.iter().enumerate() {
        if let Some(o) = &only {
            // development aid: run a single sub-check
            if !o.is_empty() && o != sc.name {
                continue;
            }
        }
        let t0 = Instant::now();
        // Shards run on detached threads and report through a channel: once some shard has found
        // a failure, the remaining shards get a grace period and are then abandoned (a seeded
        // defect may make them spin in code that has no step-budget hook); without a failure we
        // wait for all of them (the process-wide watchdog turns a hang into exit 2).
        let (tx, rx) = std::sync::mpsc::channel::<ShardResult>();
        for shard in 0..SHARDS {
            let tx = tx.clone();
            let p = Arc::clone(&p);
            std::thread::Builder::new()
                .stack_size(256 << 20)
                .spawn(move || {
                    let r = (p.subchecks[si].run_shard)(&ShardArgs { tier, seed, shard });
                    let _ = tx.send(r);
                })
                .expect("spawn");
        }
        drop(tx);
        let mut results: Vec<ShardResult> = vec![];
        let mut failure_seen_at: Option<Instant> = None;
        while results.len() < SHARDS as usize {
            let r = match failure_seen_at {
                None => rx.recv().map_err(|_| ()),
                Some(t) => {
                    let grace = std::time::Duration::from_secs(25);
                    let left = grace.checked_sub(t.elapsed()).unwrap_or_default();
                    rx.recv_timeout(left).map_err(|_| ())
                }
            };
            match r {
                Ok(r) => {
                    if r.failure.is_some() && failure_seen_at.is_none() {
                        failure_seen_at = Some(Instant::now());
                    }
                    results.push(r);
                }
                Err(()) => {
                    if failure_seen_at.is_some() {
                        abandoned += SHARDS - results.len() as u64;
                        println!("note: {} shard(s) of {} abandoned after another shard reported a violation", SHARDS as usize - results.len(), sc.name);
                    }
                    break;
                }
            }
        }
        let mut sub_eval = 0;
        let mut sub_nt: HashSet<u64> = HashSet::new();
        let mut sub_samples = 0;
        for r in results {
            sub_eval += r.evaluations;
            total_inner += r.inner;
            for h in r.nontrivial {
                sub_nt.insert(h);
            }
            for (k, v) in r.labels {
                *labels.entry(format!("{}:{}", sc.name, k)).or_default() += v;
            }
            for (k, v) in r.known {
                *known.entry(k).or_default() += v;
            }
            for s in r.samples {
                if sub_samples < 3 {
                    samples.push(s);
                    sub_samples += 1;
                }
            }
            if let Some((case, msg)) = r.failure {
                let path = write_replay(p.id, sc.name, &case, &msg);
                if !violations.iter().any(|(vp, _)| vp == &path) {
                    println!("VIOLATION property={} replay={}", p.id, path);
                    println!("  subcheck={} message={}", sc.name, msg);
                    println!("  minimal case: {}", serde_json::to_string(&case).unwrap_or_default());
                    violations.push((path, msg));
                }
            }
        }
        total_eval += sub_eval;
        per_sub.insert(
            sc.name.to_string(),
            json!({"evaluations": sub_eval, "distinct_nontrivial": sub_nt.len(), "wall_s": t0.elapsed().as_secs_f64()}),
        );
        for h in sub_nt {
            nontrivial.insert((si, h));
        }
    }
    let mut exhaustive = false;
    let mut extra_note = String::new();
    let mut extra_nt = 0u64;
    if let Some(extra) = &p.extra {
        let r = extra(tier, seed);
        total_eval += r.evaluations;
        extra_nt = r.nontrivial;
        exhaustive = r.exhaustive;
        extra_note = r.note;
        if let Some((case, msg)) = r.failure {
            let path = write_replay(p.id, if r.replay_subcheck.is_empty() { "extra" } else { r.replay_subcheck }, &case, &msg);
            println!("VIOLATION property={} replay={}", p.id, path);
            println!("  message={}", msg);
            violations.push((path, msg));
        }
    }
    for (k, n) in &known {
        if !known_printed.contains(k) {
            let what = known_entries()
                .iter()
                .find(|e| &e.key == k)
                .map(|e| e.what.clone())
                .unwrap_or_default();
            println!("KNOWN-FINDING: property={} {} -- {} ({} generated cases matched)", p.id, k, what, n);
            known_printed.insert(k.clone());
        }
    }

    // 3. evidence
    let wall = start.elapsed().as_secs_f64();
    let mut coverage = json!({
        "evaluations": total_eval,
        "distinct_nontrivial": nontrivial.len() as u64 + extra_nt,
        "rule": p.rule,
        "samples": samples,
        "inner_evaluations": total_inner,
        "labels": labels,
        "excluded_known": known,
        "subchecks": per_sub,
        "shards": SHARDS,
        "abandoned_shards": abandoned,
    });
    if exhaustive {
        coverage["exhaustive_stage"] = json!(extra_note);
    } else if !extra_note.is_empty() {
        coverage["extra_stage"] = json!(extra_note);
    }
    let ev = json!({
        "property_id": p.id,
        "tier": tier.name(),
        "seed": seed,
        "level": "exploration",
        "coverage": coverage,
        "assumptions": p.assumptions,
        "wall_s": wall,
        "violations": violations.len(),
    });
    let _ = std::fs::create_dir_all(out_dir("evidence"));
    std::fs::write(
        format!("{}/{}.json", out_dir("evidence"), p.id),
        serde_json::to_string_pretty(&ev).unwrap(),
    )
    .expect("write evidence");
    println!(
        "{} {} seed={} evaluations={} distinct_nontrivial={} inner={} known_excluded={} violations={} wall={:.1}s",
        p.id,
        tier.name(),
        seed,
        total_eval,
        nontrivial.len() as u64 + extra_nt,
        total_inner,
        known.values().sum::<u64>(),
        violations.len(),
        wall
    );
    if violations.is_empty() {
        0
    } else {
        1
    }
}

pub fn replay_file(p: &PropertyDef, path: &str) -> Result<CheckResult, String> {
    let s = std::fs::read_to_string(path).map_err(|e| format!("{}: {}", path, e))?;
    let v: Value = serde_json::from_str(&s).map_err(|e| format!("{}: {}", path, e))?;
    let sub = v["subcheck"].as_str().ok_or("replay file lacks subcheck")?;
    let sc = p
        .subchecks
        .iter()
        .find(|sc| sc.name == sub)
        .ok_or_else(|| format!("unknown subcheck {}", sub))?;
    (sc.replay)(&v["case"])
}

/// `rtaverif replay ID file`: exit 1 + VIOLATION if the case (still) fails.
pub fn run_replay(p: &PropertyDef, path: &str) -> i32 {
    match replay_file(p, path) {
        Ok(Ok(o)) => {
            if o.known.is_empty() {
                println!("replay {}: property {} holds on this case", path, p.id);
            } else {
                for k in &o.known {
                    println!("KNOWN-FINDING: property={} {}", p.id, k);
                }
            }
            0
        }
        Ok(Err(msg)) => {
            println!("VIOLATION property={} replay={}", p.id, path);
            println!("  message={}", msg);
            1
        }
        Err(e) => {
            println!("INCONCLUSIVE: {}", e);
            2
        }
    }
}

/// Coarse wall-clock watchdog: exit 2 (inconclusive), never a violation.
pub fn start_watchdog(secs: u64) {
    std::thread::spawn(move || {
        std::thread::sleep(std::time::Duration::from_secs(secs));
        println!("INCONCLUSIVE: watchdog after {} s", secs);
        std::process::exit(2);
    });
}

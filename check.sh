#!/bin/bash
# Entry point for MANIFEST.json: ./check.sh build | <ID> <quick|thorough> | replay <ID> <file>
set -u
cd "$(dirname "$0")"
export CARGO_NET_OFFLINE=true
VERIF=/verif
BIN=$VERIF/target/checked/rtaverif
BIN_UNCHECKED=$VERIF/target/unchecked/rtaverif
build() {
  # always rebuilds from /repo's current working tree (path dependency, mtime fingerprints)
  ( cd $VERIF/harness && cargo build --profile checked 2>$VERIF/target/build-checked.log >/dev/null ) || {
      mkdir -p $VERIF/target; echo "INCONCLUSIVE: harness build (checked) failed; see $VERIF/target/build-checked.log"; tail -20 $VERIF/target/build-checked.log; return 2; }
  if [ "${1:-}" = "both" ]; then
    ( cd $VERIF/harness && cargo build --profile unchecked 2>$VERIF/target/build-unchecked.log >/dev/null ) || {
      echo "INCONCLUSIVE: harness build (unchecked) failed; see $VERIF/target/build-unchecked.log"; tail -20 $VERIF/target/build-unchecked.log; return 2; }
  fi
  return 0
}
fuzz_stage() {
  # second engine: libFuzzer over the same checks (see harness/src/fuzz.rs). Additive: if the nightly
  # fuzz build is unavailable the proptest verdict stands and the evidence says so.
  local ID="$1" SEED="${VERIF_SEED:-1}" OUT=$VERIF/out
  # libFuzzer wants a small unsigned number: anything else is hashed (0 would mean "random")
  case "$SEED" in ''|*[!0-9]*|??????????*|0) SEED=$(( $(printf '%s' "$SEED" | cksum | cut -d' ' -f1) % 2147483646 + 1 ));; esac
  # runs chosen so that the stage takes roughly 5-10 minutes at the observed executions per second
  local RUNS=400000
  case "$ID" in C06|C07) RUNS=60000;; C10) RUNS=80000;; C13) RUNS=8000;; C20) RUNS=200000;; esac
  [ -n "${VERIF_FUZZ_RUNS:-}" ] && RUNS=$VERIF_FUZZ_RUNS
  mkdir -p $OUT/corpus $OUT/artifacts $OUT/logs
  if ! ( cd $VERIF/harness && cargo +nightly fuzz build --fuzz-dir fuzz --target-dir $VERIF/target/fuzz -s none all >$OUT/logs/fuzz-build.log 2>&1 ); then
    echo "note: fuzz stage skipped (cargo +nightly fuzz build failed, see $OUT/logs/fuzz-build.log)"
    "$BIN" fuzz-evidence "$ID" /dev/null "skipped: fuzz build unavailable" >/dev/null
    return 0
  fi
  rm -rf $OUT/corpus/$ID; rm -f $OUT/artifacts/$ID-*
  "$BIN" fuzz-seed "$ID" $OUT/corpus/$ID 48 "$SEED"
  local FB=$(find $VERIF/target/fuzz -path '*release/all' -type f | head -1)
  RTAVERIF_FUZZ_ONLY=$ID "$FB" $OUT/corpus/$ID -runs=$RUNS -seed=$SEED -max_len=768 -len_control=0 -timeout=120 -rss_limit_mb=8000 \
      -artifact_prefix=$OUT/artifacts/$ID- >$OUT/logs/fuzz-$ID.log 2>&1
  local RC=$?
  if [ $RC -eq 0 ]; then
    "$BIN" fuzz-evidence "$ID" $OUT/logs/fuzz-$ID.log "no violation" >/dev/null
    grep -E "DONE|Done" $OUT/logs/fuzz-$ID.log | tail -2
    return 0
  fi
  local ART=$(ls $OUT/artifacts/$ID-crash-* 2>/dev/null | head -1)
  if [ -n "$ART" ]; then
    "$BIN" fuzz-evidence "$ID" $OUT/logs/fuzz-$ID.log "violation" >/dev/null
    RTAVERIF_FUZZ_ONLY=$ID "$BIN" fuzz-replay "$ART"; return $?
  fi
  echo "INCONCLUSIVE: fuzz stage ended with rc=$RC without a crash artifact (per-input timeout or memory limit); see $OUT/logs/fuzz-$ID.log"
  "$BIN" fuzz-evidence "$ID" $OUT/logs/fuzz-$ID.log "inconclusive: timeout / memory limit" >/dev/null
  return 2
}
mkdir -p $VERIF/target $VERIF/evidence $VERIF/replays
case "${1:-}" in
  build)
    build both || exit 2
    echo "built $BIN and $BIN_UNCHECKED"
    ;;
  replay)
    ID="$2"; FILE="$3"
    if [ "$ID" = "C20" ]; then build both || exit 2; else build || exit 2; fi
    exec "$BIN" replay "$ID" "$FILE"
    ;;
  C[0-9][0-9])
    ID="$1"; TIER="${2:-${VERIF_TIER:-quick}}"
    if [ "$ID" = "C20" ]; then build both || exit 2; else build || exit 2; fi
    if [ "$TIER" != "thorough" ]; then
      exec "$BIN" check "$ID" --tier "$TIER" --seed "${VERIF_SEED:-1}"
    fi
    # thorough = proptest stage (large) + coverage-guided fuzz stage for the properties with byte decoders
    "$BIN" check "$ID" --tier thorough --seed "${VERIF_SEED:-1}"; RC=$?
    [ $RC -ne 0 ] && exit $RC
    case "$ID" in C06|C07|C08|C10|C11|C13|C14|C20) ;; *) exit 0;; esac
    fuzz_stage "$ID"; exit $?
    ;;
  *)
    echo "usage: $0 build | <ID> <quick|thorough> | replay <ID> <file>"; exit 2;;
esac

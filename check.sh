#!/bin/bash
# Entry point for MANIFEST.json: ./check.sh build | <ID> <quick|thorough> | replay <ID> <file>
set -u
cd "$(dirname "$0")"
export CARGO_NET_OFFLINE=true
VERIF=/verif
BIN=$VERIF/target/checked/rtaverif
BIN_UNCHECKED=$VERIF/target/unchecked/rtaverif
build() {
  # always rebuilds from /repo's current working tree (path dependency, mtime fingerprints)
  ( cd $VERIF/harness && cargo build --profile checked 2>$VERIF/target/build-checked.log >/dev/null ) || {
      mkdir -p $VERIF/target; echo "INCONCLUSIVE: harness build (checked) failed; see $VERIF/target/build-checked.log"; tail -20 $VERIF/target/build-checked.log; return 2; }
  if [ "${1:-}" = "both" ]; then
    ( cd $VERIF/harness && cargo build --profile unchecked 2>$VERIF/target/build-unchecked.log >/dev/null ) || {
      echo "INCONCLUSIVE: harness build (unchecked) failed; see $VERIF/target/build-unchecked.log"; tail -20 $VERIF/target/build-unchecked.log; return 2; }
  fi
  return 0
}
mkdir -p $VERIF/target $VERIF/evidence $VERIF/replays
case "${1:-}" in
  build)
    build both || exit 2
    echo "built $BIN and $BIN_UNCHECKED"
    ;;
  replay)
    ID="$2"; FILE="$3"
    if [ "$ID" = "C20" ]; then build both || exit 2; else build || exit 2; fi
    exec "$BIN" replay "$ID" "$FILE"
    ;;
  C[0-9][0-9])
    ID="$1"; TIER="${2:-${VERIF_TIER:-quick}}"
    if [ "$ID" = "C20" ]; then build both || exit 2; else build || exit 2; fi
    exec "$BIN" check "$ID" --tier "$TIER" --seed "${VERIF_SEED:-1}"
    ;;
  *)
    echo "usage: $0 build | <ID> <quick|thorough> | replay <ID> <file>"; exit 2;;
esac

#!/bin/bash
# run_seeded_dev2.sh <seeded dir> <checks...>: apply to /tmp/mut/wt-dev2, build hdev2, run the quick checks, revert
set -u
DIR=$(realpath "$1"); shift
WT=/tmp/mut/wt-dev2
git -C $WT apply "$DIR/patch.diff" || { echo "$(basename $DIR): patch does not apply"; exit 2; }
trap 'git -C $WT checkout -- . ' EXIT
export CARGO_NET_OFFLINE=true
( cd /tmp/mut/hdev2 && cargo build --profile checked >/dev/null 2>&1 && cargo build --profile unchecked >/dev/null 2>&1 ) || { echo "$(basename $DIR): harness build failed"; exit 2; }
for c in "$@"; do
  T0=$(date +%s)
  OUT=$(VERIF_SCRATCH=/tmp/mut/scratch-dev2 RTAVERIF_CHILD_BIN=/tmp/mut/hdev2-target/unchecked/rtaverif /tmp/mut/hdev2-target/checked/rtaverif check $c --tier quick --seed 1 2>&1); RC=$?
  T1=$(date +%s)
  if [ $RC -eq 1 ] && echo "$OUT" | grep -q "^VIOLATION property=$c"; then V=CAUGHT; elif [ $RC -eq 0 ]; then V=missed; else V="rc=$RC"; fi
  echo "$(basename $DIR) check=$c $V ($((T1-T0))s) $(echo "$OUT" | grep -m1 'message=' | cut -c1-220)"
done

#!/usr/bin/env python3
"""Regenerate seeded/README.md from seeded/RESULTS.tsv and the meta.json files."""
import json, collections, os
res = collections.OrderedDict()
for l in open('/verif/seeded/RESULTS.tsv'):
    d, c, v = l.rstrip('\n').split('\t')
    res.setdefault(d, collections.OrderedDict())[c] = v   # later lines (re-runs) win
head = """# Seeded changes

Each directory holds `patch.diff` (apply with `git -C /repo apply`), the sub-agent's demonstration `demo.rs`, and `meta.json` (which property it breaks, what it needs to manifest, what the sub-agent ran, and under `verif` what I ran: the confirmation in a scratch worktree and the verdict of each quick-tier check). Round 1 = `<ID>-A|B`, round 2 = `<ID>-2A|2B`, round 3 = `<ID>-3A|3B`, round 4 (changes in shared infrastructure; the property is named in meta.json) = `R4-<area><A|B|C>`, round 5 (changes that make an analysis unsafe, for the simulation-based checks) = `R5-<area><A|B|C>`, round 6 (eight properties again, mechanisms different from all earlier rounds) = `<ID>-6A|6B`, round 7 (short follow-up, one change each for C08 C09 C10) = `<ID>-7A`. `RESULTS.tsv` is written by `tools/run_all_seeded.sh` from `PLAN.tsv` (later lines for the same change and check are re-runs after the check was strengthened; the last one counts); this file by `tools/gen_seeded_readme.py`.

| change | summary | quick-tier verdicts |
|---|---|---|
"""
rows = []
own_caught = 0
any_caught = 0
for d, r in res.items():
    m = json.load(open(f'/verif/seeded/{d}/meta.json'))
    s = m['summary'].replace('|', '/').replace('\n', ' ')[:230]
    rows.append(f"| {d} | {s} | " + ', '.join(f"{c}: {v}" for c, v in r.items()) + " |")
    own = m.get('property', d.split('-')[0])[:3] if d.startswith('R') else d.split('-')[0]
    own_caught += r.get(own) == 'CAUGHT'
    any_caught += any(v == 'CAUGHT' for v in r.values())
tail = f"\n\n{len(res)} changes; caught by the quick tier of the property's own check: {own_caught}; caught by some quick check: {any_caught}.\n"

NOTE = """
`prompts/` holds the prompt template of rounds 1/2 and one example prompt of each later round (the sub-agents got only the property text(s), a scratch worktree and a list of earlier changes to avoid - nothing from /verif). Development aids in `tools/`: `run_seeded.sh` / `run_benign.sh` apply a patch to `/repo`, run the checks and revert; `run_seeded_dev2.sh` / `run_benign_dev.sh` / `import_rN.sh` do the same against a *copy* of the harness whose path dependency points at a scratch worktree (used while `/repo` was occupied by a soak; the copies live under /tmp and are not needed by any registered command).
"""
open('/verif/seeded/README.md', 'w').write(head + '\n'.join(rows) + tail + NOTE)
print(len(res), own_caught, any_caught)

#!/bin/bash
# import_seeded.sh <ID...>: copy sub-agent deliverables /tmp/mut/out-<ID>/{A,B} to /verif/seeded/<ID>-{A,B} and verify them
for id in "$@"; do for m in A B; do
  src=/tmp/mut/out-$id/$m; dst=/verif/seeded/$id-$m
  [ -f $src/patch.diff ] || { echo "missing $src"; continue; }
  [ -f $dst/CONFIRMED ] && continue
  mkdir -p $dst && cp $src/patch.diff $src/demo.rs $src/meta.json $dst/
  if /verif/tools/verify_seeded.sh $dst > $dst/verify.txt 2>&1; then touch $dst/CONFIRMED; fi
  cat $dst/verify.txt
done; done

#!/usr/bin/env python3
"""Regenerate /verif/MANIFEST.json from the table below (keeps it valid at all times)."""
import json, subprocess
props=[json.loads(l) for l in open('/verif/properties.jsonl')]
HOOK_COMMITS=["c6ec061"]
# id -> (technique, level text, level note, design ref)
CHECKS={
 "C08":("property-based testing (proptest): generated supplies/workloads/offsets/limits vs. linear-scan least-solution oracle over a reference SBF",
        "Generated search (400k cases quick) over supplies incl. user-defined ones using the default service_time, monotone step workloads, offsets inside the busy window and limits at / just below / above the least solution; every result (value, Ok/Err, error payload, stability under larger limits) is compared with a linear scan over a supply-bound function computed from the reservation parameters alone; max_response_time is compared with a plain first-error/maximum fold on generated result sequences. Exploration, not proof: absence of a counterexample among the generated cases.",
        "Trusted: the reference SBF of supply_ref.rs (itself cross-checked against exhaustive placement enumeration in C09) and the harness' reading of the property's domain (limits >= 1, offsets inside the busy window).",
        "DESIGN.md section 4 (C08)"),
 "C09":("property-based testing (proptest) + exhaustive enumeration for tiny parameters: generated reservations/placements vs. minimum-over-placements reference and linear-scan inverse",
        "Generated reservations (P<=40/60 with every window length <= 6P and every demand; P up to 10^6 at generated points around the SBF's breakpoints) and generated budget placements; provided_service must equal the minimum over all placements (computed from (Q,D,P) alone), never exceed the service of any explicit placement, be attained by the constructed early-then-late placement, be 0 at 0 / monotone / 1-Lipschitz; service_time (specialised and the trait default through a wrapper) must be the least t with sbf(t) >= demand; Constrained(Q,P,P) = Periodic(Q,P), budget = period = Dedicated. Plus a literal enumeration of all placements for P <= 4 (quick) / 5 (thorough). Exploration.",
        "Trusted: the per-period decomposition of the minimum over placements (cross-checked by the literal enumeration stage) and the assumption that a reservation delivers exactly its budget per period.",
        "DESIGN.md section 4 (C09)"),
}
NA_REASON={}
checks=[]
for p in props:
    i=p["id"]
    if i in CHECKS:
        t,l,n,r=CHECKS[i]
        checks.append({"property_id":i,"quick_cmd":f"./check.sh {i} quick","thorough_cmd":f"./check.sh {i} thorough","evidence_file":f"evidence/{i}.json","replay_cmd_template":f"./check.sh replay {i} {{path}}","engine":"rtaverif","level_claimed":{"category":"exploration","text":l,"design_ref":r},"level_note":n,"technique":t})
na=[{"property_id":p["id"],"reason":NA_REASON.get(p["id"],"check not built yet (work in progress; the design is in DESIGN.md section 4)")} for p in props if p["id"] not in CHECKS]
m={"version":1,"setup_cmd":"./check.sh build",
 "hooks":{"guard":"cargo feature verif","enable":"the harness crate depends on response-time-analysis = { path = \"/repo\", features = [\"verif\"] }, so every check rebuilds /repo's working tree with the hooks on","baseline_off_cmd":"cd /repo && cargo test --workspace --no-fail-fast --offline","source_commits":HOOK_COMMITS,"add_only":True},
 "engines":[{"name":"rtaverif","path":"harness","serves_properties":sorted(CHECKS.keys()),"kind_free_text":"proptest 1.11 TestRunner driven from a binary: deterministic 16-shard generation (seed = VERIF_SEED), shrinking to JSON replay files, independent reference models (simulators, brute-force equation evaluators, placement enumeration) as oracles"}],
 "checks":checks,"not_applicable":na,
 "notes":"All checks: ./check.sh <ID> <quick|thorough>; replay: ./check.sh replay <ID> <file>. Exit 0 held / 1 VIOLATION / 2 inconclusive (harness build failure, watchdog). Known findings: known_findings.json."}
json.dump(m,open('/verif/MANIFEST.json','w'),indent=1)
print("checks:",len(checks),"n/a:",len(na))

#!/usr/bin/env python3
"""Regenerate /verif/MANIFEST.json from the table below (keeps it valid at all times)."""
import json, subprocess
props=[json.loads(l) for l in open('/verif/properties.jsonl')]
HOOK_COMMITS=["c6ec061","2a08fc4","d8c9fc4"]
# id -> (technique, level text, level note, design ref)
CHECKS={
 "C08":("property-based testing (proptest): generated supplies/workloads/offsets/limits vs. linear-scan least-solution oracle over a reference SBF",
        "Generated search (400k cases quick) over supplies incl. user-defined ones using the default service_time, monotone step workloads, offsets inside the busy window and limits at / just below / above the least solution; every result (value, Ok/Err, error payload, stability under larger limits) is compared with a linear scan over a supply-bound function computed from the reservation parameters alone; max_response_time is compared with a plain first-error/maximum fold on generated result sequences. Exploration, not proof: absence of a counterexample among the generated cases.",
        "Trusted: the reference SBF of supply_ref.rs (itself cross-checked against exhaustive placement enumeration in C09) and the harness' reading of the property's domain (limits >= 1, offsets inside the busy window).",
        "DESIGN.md section 4 (C08)"),
 "C09":("property-based testing (proptest) + exhaustive enumeration for tiny parameters: generated reservations/placements vs. minimum-over-placements reference and linear-scan inverse",
        "Generated reservations (P<=40/60 with every window length <= 6P and every demand; P up to 10^6 at generated points around the SBF's breakpoints) and generated budget placements; provided_service must equal the minimum over all placements (computed from (Q,D,P) alone), never exceed the service of any explicit placement, be attained by the constructed early-then-late placement, be 0 at 0 / monotone / 1-Lipschitz; service_time (specialised and the trait default through a wrapper) must be the least t with sbf(t) >= demand; Constrained(Q,P,P) = Periodic(Q,P), budget = period = Dedicated. Plus a literal enumeration of all placements for P <= 4 (quick) / 5 (thorough). Exploration.",
        "Trusted: the per-period decomposition of the minimum over placements (cross-checked by the literal enumeration stage) and the assumption that a reservation delivers exactly its budget per period.",
        "DESIGN.md section 4 (C09)"),
 "C10":("property-based testing (proptest): generated nested arrival models and generated admissible event sequences vs. window counting",
        "Generated nested arrival specs and, per case, the densest plus several generated admissible event sequences (semantics written from the models' documentation, independent of number_arrivals); every window of every length is counted and compared with number_arrivals; plus zero-at-zero, monotonicity, attainment and sub-additivity for Periodic/Sporadic, and jitter composition (pointwise and against twice-delayed sequences). Further sub-checks: scale invariance at large values, recorded traces (the curve inferred by from_trace must bound the trace itself), and histories in which one Curve object is queried and eagerly extended in a generated order (it must keep bounding the sequences of its original prefix). Exploration.",
        "Trusted: the harness' reading of which sequences each model documents as admissible (arr.rs events()).",
        "DESIGN.md section 4 (C10), 3.1"),
 "C11":("property-based testing (proptest): generated arrival/request bounds vs. brute-force increase points",
        "For generated arrival bounds of every kind (incl. plateau-ended prefixes, jitter > period, derived/converted curves, prefixes, composites) and request bounds over 1-4 components with positive costs, the sequence yielded by steps_iter up to a horizon of several prefix repetitions is compared element-wise with the brute-force set {delta : f(delta-1) < f(delta)}; step_offsets = steps - 1. Stateful sub-check curve-history: a generated sequence of iterator pulls, queries, in-place extensions (extrapolate, extrapolate_steps), clones and jittered clones on one arrival::Curve, the same comparison after every operation. Known finding (leading 0 of a direct ArrivalCurvePrefix, pinned by the crate's test) is matched by an exact signature and excluded, everything else about such cases is still checked. Exploration.",
        "Trusted: number_arrivals / service_needed as the definition of 'the bound' (their own correctness is C10/C12/C16).",
        "DESIGN.md section 4 (C11)"),
 "C12":("property-based testing (proptest): generated traces and sub-additive source models vs. window counting / pointwise dominance and prefix equality / duality",
        "Traces with simultaneous events and bursts: the inferred curve must bound the trace's events in every window of every length (window counting) and be exact inside the recorded prefix; curves and prefixes derived from generated sub-additive sources must dominate the source far beyond the prefix and equal it on the covered prefix; delta_min_iter must be the exact dual of number_arrivals. Exploration.",
        "Trusted: sources are sub-additive by construction; Curve::from(&ArrivalCurvePrefix) is compared with the ultimate source (the prefix's own tail is deliberately pessimistic).",
        "DESIGN.md section 4 (C12)"),
 "C13":("property-based testing (proptest), model-based histories: generated prefixes, eager operations, event sequences and query histories over shared clones vs. un-extrapolated / fresh / eagerly extrapolated references",
        "Eager extrapolation (extrapolate, extrapolate_steps, extrapolate_with_bound) of generated super-additive prefixes is compared pointwise with the un-extrapolated curve (unchanged inside the prefix, never more) and with window counts of generated sequences respecting the prefix; generated histories of queries (number_arrivals, steps, iterators held across queries, clones, jittered clones) on objects sharing one ExtrapolatingCurve cache are compared answer by answer with fresh instances and an eagerly extrapolated Curve; any panic (BorrowMutError) is a violation. Exploration.",
        "Trusted: greedy earliest-legal-time sequences are admissible for a delta-min prefix.",
        "DESIGN.md section 4 (C13)"),
 "C14":("property-based testing (proptest), model-based histories: generated cost models / traces / query histories vs. sliding-window sums and fresh instances",
        "Model laws for every cost model far beyond its prefix; trace-derived curves against the maximum cost of every run of n consecutive jobs of the generated trace (expensive runs at the very end included) for every n; eager extrapolation never raises a bound inside the extended prefix and keeps dominating the trace; cached answers equal fresh ones for generated query histories over shared clones. Exploration.",
        "Trusted: sliding-window sums over the raw trace.",
        "DESIGN.md section 4 (C14)"),
 "C15":("property-based testing (proptest): generated (rate, delta, epsilon) vs. an independent high-accuracy Poisson quantile / pmf",
        "Means from 10^-3 to ~2500 (quick) / ~5000 (thorough), epsilon from 10^-6 to 0.5: the returned n must lie in the quantile band for 1-epsilon -/+ 1e-7 computed by an independent ratio-recurrence evaluation with a right-to-left tail sum; zero at zero, monotone in delta, arrival_probability within 1e-6 relative of the pmf; termination through a deterministic step budget (hook). Sub-check instances: several approximations of one process (same rate, different epsilon) queried in a generated order in one thread, each answer against the band of the instance asked. Exploration.",
        "Trusted: the harness' reference pmf (Stirling series for ln k!, ratio recurrence) and the stated float tolerances.",
        "DESIGN.md section 4 (C15)"),
 "C16":("property-based testing (proptest): generated component models and aggregation shapes vs. recomputation from separately built components",
        "service_needed, job_cost_iter, least_wcet_in_interval, service_needed_by_n_jobs and the per-component variant of RBF / Aggregate / Slice (boxed, referenced, sliced, nested) are recomputed from separately built arrival and cost objects (sum, multiset union, n largest by sorting). Exploration.",
        "Trusted: the component models as black boxes (C10/C14).",
        "DESIGN.md section 4 (C16)"),
 "C01":("property-based testing (proptest): generated task sets and generated schedules (release, execution-time, tie-break and non-preemptive-region decisions) vs. an independent slot-by-slot FP scheduler simulation",
        "For generated task sets (jitter > period, bursts, plateaus, equal priorities, segment layouts) every Ok(R) of the four FP analyses is confronted with the canonical adversary schedule and several generated legal schedules in a simulator that knows nothing about busy windows; any job responding later than R is a violation. The bound is attained exactly in ~98 % of the Ok cases (measured label), so an analysis that became optimistic by one tick on such inputs is caught. A second sub-check runs the RBF-taking analyses (preemptive, floating) on wcet::Multiframe cost models incl. zero-cost frames, with per-job costs in the simulation taken from the frames. Exploration: cannot show absence.",
        "Trusted: the simulator's scheduling semantics (sim_uni.rs) and the admissibility of the generated release sequences (cross-validated by C10); blocking bound as the property prescribes.",
        "DESIGN.md section 4 (C01), 3.4"),
 "C02":("property-based testing (proptest): generated task sets, deadlines and schedules vs. an independent EDF scheduler simulation",
        "As C01 for the four EDF analyses with arbitrary relative deadlines (also > period), generated tie-breaks among equal absolute deadlines, per-task phases and later-deadline blockers; bound attained in ~95 % of Ok cases; multiframe-cost sub-check as C01 (preemptive and floating EDF). Exploration.",
        "Trusted: as C01.",
        "DESIGN.md section 4 (C02), 3.4"),
 "C03":("property-based testing (proptest): generated task sets and schedules vs. an independent FIFO scheduler simulation",
        "Every job of every task in the canonical dense and several generated schedules must respond within the FIFO bound; bound attained in ~100 % of Ok cases; multiframe-cost sub-check as C01 (zero-cost frames, bursts). Exploration.",
        "Trusted: as C01.",
        "DESIGN.md section 4 (C03), 3.4"),
 "C06":("property-based testing (proptest): generated task sets / analyses / limits vs. brute-force evaluation of the published equations over every offset",
        "The nine analyses are compared (Ok value, Ok vs. Err; a panic is a violation) with a linear-scan evaluation of their equations over every offset A in [0,L) on tabulated RBFs, for generated task sets with jitter, bursts, deadlines of both signs relative to the analysed task, blocking bounds and limits at / just below L and the largest AF. Further sub-checks: scale equivariance at large values, and a slow-convergence stratum (utilisation 1 - 2^-k, L up to 7*10^5, more than 10^4 iteration steps) in which FIFO is compared with the linear scan over every offset. Exploration.",
        "Trusted: the harness' transcription of the equations from the doc comments (validated by 0 mismatches on the unchanged tree); RBFs as black boxes.",
        "DESIGN.md section 4 (C06), 3.6"),
 "C18":("property-based testing (proptest), witness search: constructed adversary + generated schedules in the scheduler simulation must attain the bound",
        "For task sets with exact realisable curves the canonical adversary (and, failing that, generated schedules) must produce a job whose response time equals the bound of the preemptive-FP, non-preemptive-FP and FIFO analyses. The existential is decided constructively; a failure means no witness among the constructed and generated schedules. Exploration.",
        "Trusted: simulator semantics; the adversary construction.",
        "DESIGN.md section 4 (C18), 3.4"),
 "C04":("property-based testing (proptest): generated executor workloads, reservations and scenarios (releases, execution times, budget placements) vs. an independent ROS 2 executor + reservation simulation",
        "Every Ok(R) of rta_timer / rta_polling_point_callback (chain-free workloads), rta_processing_chain and rta_event_source is confronted with the canonical worst-case scenario and several generated scenarios in a slot-by-slot simulator of the executor model stated in the property; no instance (chains: source arrival to completion of the last callback) may exceed R. The bound is attained in a large share of cases (label). Constructed scenarios include callbacks that just miss one or two consecutive polling points; a further sub-check uses wcet::Multiframe callback costs. Exploration.",
        "Trusted: the executor model of ros.rs (taken from the property statement), admissibility of generated arrivals (C10) and placements (C09).",
        "DESIGN.md section 4 (C04), 3.5"),
 "C05":("property-based testing (proptest): generated workloads with self-consistent bound vectors (iterated analysis) vs. the ROS 2 executor simulation",
        "For generated workloads mixing timers, Polled(p) and PolledUnknownPrio callbacks the bound vector is iterated to a fixed point from the WCETs exactly as the property prescribes; then every instance of every callback in the canonical, the constructed (one or two callbacks just missing consecutive polling points, so that carried-in and fresh instances meet) and several generated scenarios must respond within its bound; a further sub-check uses wcet::Multiframe callback costs. Exploration.",
        "Trusted: as C04; singleton subchains with externally triggered callbacks.",
        "DESIGN.md section 4 (C05), 3.5"),
 "C07":("property-based testing (proptest): generated ROS 2 analysis calls vs. brute-force evaluation of the published inequalities over every offset with a supply-bound function computed from (Q,D,P) alone",
        "All six ROS 2 analyses (all four callback kinds, singleton and multi-callback subchains, arbitrary assumed bounds, scalar and valid multiframe costs, three supply kinds, limits at / below the result) are compared (value, Ok/Err) with a linear-scan evaluation of their defining inequalities over every offset; a panic of an analysis (e.g. the crate's debug-only cross-checks) is a violation. Exploration.",
        "Trusted: the harness' transcription of Lemmas 1,3,4/5,8 and Def. 1-3,5, Lemma 18, Theorems 2/3 (0 mismatches on the unchanged tree); request/arrival/cost bounds as black boxes; cost models that are valid bounds on every run of consecutive jobs.",
        "DESIGN.md section 4 (C07), 3.6"),
 "C17":("property-based testing (proptest), metamorphic: generated base systems and single-parameter hardenings",
        "For the nine uniprocessor analyses and the six ROS 2 analyses (scalar costs), a generated base call is compared with the same call after one hardening (WCET, jitter, blocking, non-preemptive segment, period, added task/callback, weaker supply, limit): the bound must not decrease, Err must stay Err, a larger limit must reproduce an Ok exactly. Sub-check uniprocessor-scaled: the same relation with every time value multiplied by 20011 / 100003 and the limit placed at a generated fraction of the harder system's bound (limits above 10^5). Exploration.",
        "Trusted: which changes count as hardenings (DESIGN.md: the analysed task's own last segment is excluded).",
        "DESIGN.md section 4 (C17)"),
 "C19":("property-based testing (proptest), differential: pairs of analyses on their common special cases",
        "Seven uniprocessor relations (LP/floating/preemptive/non-preemptive FP, the EDF reductions, NP-EDF vs FIFO under equal deadlines, event source vs FIFO) and the three-way supply equivalence Dedicated = Periodic(P,P) = Constrained(P,P,P) for every ROS 2 analysis, on generated systems, blocking bounds and limits; Ok/Err and values must be identical. Exploration.",
        "Trusted: nothing beyond the crate itself (pure differential).",
        "DESIGN.md section 4 (C19)"),
 "C20":("property-based testing (proptest), differential across build profiles: generated API programs run in a checked build in-process and in an unchecked build through a persistent child process",
        "Generated programs over all analyses, model constructors and queries (edge strata: Never, jitter >> T, bursts, traces, limits around the debug cross-check threshold, values up to 10^9) are executed under catch_unwind with deterministic step budgets in the checked build (so the library's own debug cross-checks run) and in the unchecked build; any panic, budget exhaustion, dead child or differing outcome is a violation unless it matches the exact signature of a recorded known finding. Exploration.",
        "Trusted: step budgets as the definition of 'terminates' (2*10^7 work-weighted loop iterations, orders of magnitude above legitimate runs on the generated sizes); the two harness builds differ only in debug-assertions / overflow-checks.",
        "DESIGN.md section 4 (C20), 2.4"),
}
NA_REASON={}
FUZZ={"C06","C07","C08","C10","C11","C13","C14","C20"}
EXH={"C06":"all pairs of sporadic tasks from a small parameter grid","C07":"tiny ROS 2 workloads from a parameter grid","C08":"all small reservations x offsets x step workloads x limit modes","C09":"all budget placements for tiny periods","C10":"all Periodic/Sporadic/short delta-min models with tiny parameters","C11":"all Periodic/Sporadic/short delta-min models with tiny parameters (plain, jittered, summed)"}
for k in list(CHECKS.keys()):
    t,l,n,r=CHECKS[k]
    if k in EXH and "exhaustive" not in t:
        t=t+"; plus bounded-exhaustive enumeration ("+EXH[k]+")"
    if k in FUZZ:
        t=t+"; thorough tier adds coverage-guided fuzzing (libFuzzer, structure-aware byte decoders) of the same check"
    CHECKS[k]=(t,l,n,r)
checks=[]
for p in props:
    i=p["id"]
    if i in CHECKS:
        t,l,n,r=CHECKS[i]
        checks.append({"property_id":i,"quick_cmd":f"./check.sh {i} quick","thorough_cmd":f"./check.sh {i} thorough","evidence_file":f"evidence/{i}.json","replay_cmd_template":f"./check.sh replay {i} {{path}}","engine":"rtaverif","level_claimed":{"category":"exploration","text":l,"design_ref":r},"level_note":n,"technique":t})
na=[{"property_id":p["id"],"reason":NA_REASON.get(p["id"],"check not built yet (work in progress; the design is in DESIGN.md section 4)")} for p in props if p["id"] not in CHECKS]
m={"version":1,"setup_cmd":"./check.sh build",
 "hooks":{"guard":"cargo feature verif","enable":"the harness crate depends on response-time-analysis = { path = \"/repo\", features = [\"verif\"] }, so every check rebuilds /repo's working tree with the hooks on","baseline_off_cmd":"cd /repo && cargo test --workspace --no-fail-fast --offline","source_commits":HOOK_COMMITS,"add_only":True},
 "engines":[{"name":"rtaverif","path":"harness","serves_properties":sorted(CHECKS.keys()),"kind_free_text":"proptest 1.11 TestRunner driven from a binary: deterministic 16-shard generation (seed = VERIF_SEED), shrinking to JSON replay files, independent reference models (simulators, brute-force equation evaluators, placement enumeration) as oracles"}],
 "checks":checks,"not_applicable":na,
 "notes":"All checks: ./check.sh <ID> <quick|thorough>; replay: ./check.sh replay <ID> <file>. Exit 0 held / 1 VIOLATION / 2 inconclusive (harness build failure, watchdog). Known findings: known_findings.json."}
json.dump(m,open('/verif/MANIFEST.json','w'),indent=1)
print("checks:",len(checks),"n/a:",len(na))

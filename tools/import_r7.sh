#!/bin/bash
# import_r7.sh <ID...>: round-7 deliverables /tmp/mut/out7-<ID>/{A,B} -> /verif/seeded/<ID>-7{A,B};
# confirm each in a scratch worktree (verify_seeded.sh), then apply to /repo, run the property's own
# quick check, revert (run_seeded.sh) and append the verdict to seeded/RESULTS.tsv.
for id in "$@"; do for m in A B; do
  src=/tmp/mut/out7-$id/$m; dst=/verif/seeded/$id-7$m
  [ -f $src/patch.diff ] || { echo "missing $src"; continue; }
  if [ ! -f $dst/CONFIRMED ]; then
    mkdir -p $dst && cp $src/patch.diff $src/demo.rs $src/meta.json $dst/
    if /verif/tools/verify_seeded.sh $dst > $dst/verify.txt 2>&1; then touch $dst/CONFIRMED; fi
    cat $dst/verify.txt
  fi
  [ -f $dst/CONFIRMED ] || { rm -rf $dst; continue; }
  OUT=$(/verif/tools/run_seeded.sh $dst $id); echo "$OUT"
  V=$(echo "$OUT" | grep -o "check=$id [A-Za-z=0-9]*" | head -1 | cut -d' ' -f2)
  printf '%s\t%s\t%s\n' "$id-7$m" "$id" "$V" >> /verif/seeded/RESULTS.tsv
done; done

#!/bin/bash
# verify_seeded.sh <dir with patch.diff demo.rs meta.json> : confirm in a scratch worktree that the
# patch applies, the crate builds, the unedited test suite passes, the demo fails with the patch
# and passes without it.  Prints a one-line verdict; exit 0 iff all confirmed.
set -u
DIR=$(realpath "$1")
WT=/tmp/mut/wt-verify-$$
export CARGO_NET_OFFLINE=true
git -C /repo worktree add -q --detach "$WT" HEAD || exit 2
trap 'git -C /repo worktree remove --force "$WT" >/dev/null 2>&1' EXIT
cd "$WT"
mkdir -p tests
cp "$DIR/demo.rs" tests/demo.rs
export CARGO_TARGET_DIR=/tmp/mut/target-verify
# without the patch: demo passes
if ! cargo test --offline --test demo >"$DIR/verify_demo_clean.log" 2>&1; then echo "REJECT $DIR: demo fails on the unchanged crate"; exit 1; fi
git apply "$DIR/patch.diff" || { echo "REJECT $DIR: patch does not apply"; exit 1; }
if git diff --name-only | grep -qv '^src/'; then echo "REJECT $DIR: touches non-src files"; exit 1; fi
if git diff --name-only | grep -q 'tests.rs'; then echo "REJECT $DIR: edits tests"; exit 1; fi
if ! ( cargo test --offline --lib && cargo test --offline --doc ) >"$DIR/verify_suite.log" 2>&1; then echo "REJECT $DIR: existing suite fails with the patch"; exit 1; fi
if ! grep -q "80 passed; 0 failed" "$DIR/verify_suite.log"; then echo "REJECT $DIR: suite did not report 80 passed"; exit 1; fi
if cargo test --offline --test demo >"$DIR/verify_demo_patched.log" 2>&1; then echo "REJECT $DIR: demo passes with the patch"; exit 1; fi
echo "CONFIRMED $DIR: patch applies, 80 tests + doctests pass, demo fails with patch and passes without"
exit 0

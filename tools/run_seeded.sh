#!/bin/bash
# run_seeded.sh <seeded dir> [check ids...] : apply the patch to /repo, run the given checks
# (default: the property named in meta.json) at quick tier, revert.  Prints per-check verdicts.
set -u
DIR=$(realpath "$1"); shift
if [ -n "$(git -C /repo status --porcelain --untracked-files=no)" ]; then echo "refusing: /repo has uncommitted changes"; exit 2; fi
PROP=$(python3 -c "import json,sys; print(json.load(open('$DIR/meta.json'))['property'])")
CHECKS="${*:-$PROP}"
git -C /repo apply "$DIR/patch.diff" || { echo "patch does not apply"; exit 2; }
trap 'git -C /repo checkout -- . ' EXIT
for c in $CHECKS; do
  T0=$(date +%s)
  OUT=$(cd /verif && VERIF_SCRATCH=/tmp/mut/scratch ./check.sh $c ${TIER:-quick} 2>&1); RC=$?
  T1=$(date +%s)
  if [ $RC -eq 1 ] && echo "$OUT" | grep -q "^VIOLATION property=$c"; then V=CAUGHT; elif [ $RC -eq 0 ]; then V=missed; else V="rc=$RC"; fi
  echo "$(basename $DIR) check=$c $V ($((T1-T0))s) $(echo "$OUT" | grep -m1 'message=' | cut -c1-220)"
done

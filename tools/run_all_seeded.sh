#!/bin/bash
# run_all_seeded.sh: run every seeded change against the checks listed in seeded/PLAN.tsv (quick tier),
# write seeded/RESULTS.tsv and record the verdicts in each meta.json ("verif" key).
cd /verif
: > seeded/RESULTS.tsv
while IFS=$'\t' read -r dir checks; do
  [ -d seeded/$dir ] || continue
  OUT=$(timeout 3000 tools/run_seeded.sh seeded/$dir $checks 2>&1)
  echo "$OUT" | while read -r line; do
    c=$(echo "$line" | sed -n 's/.*check=\([A-Z0-9]*\) .*/\1/p'); v=$(echo "$line" | awk '{print $3}')
    [ -n "$c" ] && printf "%s\t%s\t%s\n" "$dir" "$c" "$v" >> seeded/RESULTS.tsv
  done
done < seeded/PLAN.tsv
python3 - <<'PY'
import json,collections,os
res=collections.defaultdict(dict)
for l in open('/verif/seeded/RESULTS.tsv'):
    d,c,v=l.rstrip('\n').split('\t'); res[d][c]=v
for d,r in res.items():
    p=f'/verif/seeded/{d}/meta.json'
    m=json.load(open(p))
    m['verif']={"confirmed":"tools/verify_seeded.sh in a scratch worktree of /repo: patch applies, cargo test --lib and --doc pass (80 + 3), tests/demo.rs fails with the patch and passes without (logs: verify_*.log)",
                "quick_tier_verdicts":r,"how":"tools/run_seeded.sh: git -C /repo apply patch.diff; VERIF_SCRATCH=... ./check.sh <ID> quick; git -C /repo checkout -- ."}
    json.dump(m,open(p,'w'),indent=1)
print("recorded",len(res))
PY

#!/bin/bash
# run_benign_dev.sh <dir with patch.diff>: like tools/run_benign.sh, but against the dev copy of the harness
# (/tmp/mut/hdev, path dependency on the scratch worktree /tmp/mut/wt-dev) so that /repo stays untouched.
set -u
DIR=$(realpath "$1"); NAME=$(basename $(dirname $DIR))/$(basename $DIR)
WT=/tmp/mut/wt-dev
[ -z "$(git -C $WT status --porcelain --untracked-files=no)" ] || { echo "refusing: $WT dirty"; exit 2; }
git -C $WT apply "$DIR/patch.diff" || { echo "$NAME: patch does not apply"; exit 2; }
trap 'git -C $WT checkout -- . ' EXIT
export CARGO_NET_OFFLINE=true
( cd $WT && CARGO_TARGET_DIR=/tmp/mut/target-verify cargo test --offline --lib 2>&1 | grep -q "80 passed; 0 failed" ) || echo "$NAME: WARNING unit tests do not pass with this patch"
( cd /tmp/mut/hdev && cargo build --profile checked >/dev/null 2>&1 && cargo build --profile unchecked >/dev/null 2>&1 ) || { echo "$NAME: harness build failed"; exit 2; }
BAD=0
for id in C01 C02 C03 C04 C05 C06 C07 C08 C09 C10 C11 C12 C13 C14 C15 C16 C17 C18 C19 C20; do
  OUT=$(VERIF_SCRATCH=/tmp/mut/scratch-dev RTAVERIF_CHILD_BIN=/tmp/mut/hdev-target/unchecked/rtaverif /tmp/mut/hdev-target/checked/rtaverif check $id --tier quick --seed ${VERIF_SEED:-1} 2>&1); RC=$?
  if [ $RC -ne 0 ]; then BAD=1; echo "$NAME check=$id rc=$RC $(echo "$OUT" | grep -m1 'message=' | cut -c1-300)"; fi
done
[ $BAD -eq 0 ] && echo "$NAME: all 20 quick checks silent"
exit $BAD

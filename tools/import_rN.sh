#!/bin/bash
# import round-4 deliverables /tmp/mut/out4-<n>/{A,B,C} -> /verif/seeded/R4-<n><X>, verify, then run the declared checks (dev copy)
ROUND=$1; shift
for n in "$@"; do for m in A B C; do
  src=/tmp/mut/out${ROUND}-$n/$m; dst=/verif/seeded/R${ROUND}-$n$m
  [ -f $src/patch.diff ] || { echo "missing $src"; continue; }
  if [ ! -f $dst/CONFIRMED ]; then
    mkdir -p $dst && cp $src/patch.diff $src/demo.rs $src/meta.json $dst/
    if /verif/tools/verify_seeded.sh $dst > $dst/verify.txt 2>&1; then touch $dst/CONFIRMED; fi
    cat $dst/verify.txt
  fi
  [ -f $dst/CONFIRMED ] || continue
  CHECKS=$(python3 -c "
import json;m=json.load(open('$dst/meta.json'))
c=[m['property']]+[x for x in m.get('also_breaks',[]) if isinstance(x,str) and len(x)>=3]
seen=[]
for x in c:
    x=x[:3]
    if x not in seen and x[0]=='C' and x[1:].isdigit(): seen.append(x)
print(' '.join(seen))")
  /tmp/mut/run_seeded_dev2.sh $dst $CHECKS
done; done

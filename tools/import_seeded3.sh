#!/bin/bash
# import_seeded2.sh <ID...>: round-3 deliverables /tmp/mut/out3-<ID>/{A,B} -> /verif/seeded/<ID>-2{A,B}
for id in "$@"; do for m in A B; do
  src=/tmp/mut/out3-$id/$m; dst=/verif/seeded/$id-3$m
  [ -f $src/patch.diff ] || { echo "missing $src"; continue; }
  [ -f $dst/CONFIRMED ] && continue
  mkdir -p $dst && cp $src/patch.diff $src/demo.rs $src/meta.json $dst/
  if /verif/tools/verify_seeded.sh $dst > $dst/verify.txt 2>&1; then touch $dst/CONFIRMED; fi
  cat $dst/verify.txt
done; done

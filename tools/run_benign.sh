#!/bin/bash
# run_benign.sh <dir with patch.diff>: apply a behaviour-preserving change to /repo, run ALL quick checks
# (scratch output), revert. Any VIOLATION is either a false alarm of the machinery or a change that is not
# benign after all - both need triage.
set -u
DIR=$(realpath "$1")
if [ -n "$(git -C /repo status --porcelain --untracked-files=no)" ]; then echo "refusing: /repo has uncommitted changes"; exit 2; fi
git -C /repo apply "$DIR/patch.diff" || { echo "$(basename $(dirname $DIR))/$(basename $DIR): patch does not apply"; exit 2; }
trap 'git -C /repo checkout -- . ' EXIT
( cd /repo && cargo test --offline --lib 2>&1 | grep -q "80 passed; 0 failed" ) || echo "$(basename $DIR): WARNING unit tests do not pass with this patch"
BAD=0
for id in C01 C02 C03 C04 C05 C06 C07 C08 C09 C10 C11 C12 C13 C14 C15 C16 C17 C18 C19 C20; do
  OUT=$(cd /verif && VERIF_SCRATCH=/tmp/mut/scratch ./check.sh $id quick 2>&1); RC=$?
  if [ $RC -ne 0 ]; then BAD=1; echo "$(basename $(dirname $DIR))/$(basename $DIR) check=$id rc=$RC $(echo "$OUT" | grep -m1 'message=' | cut -c1-260)"; fi
done
[ $BAD -eq 0 ] && echo "$(basename $(dirname $DIR))/$(basename $DIR): all 20 quick checks silent"
exit $BAD

#!/bin/bash
# soak.sh <tier> <seeds...>: run every check on the unchanged tree with several seeds; evidence/replays go to a scratch dir.
TIER=${1:-quick}; shift
export VERIF_SCRATCH=${VERIF_SCRATCH:-/tmp/mut/soak}
mkdir -p $VERIF_SCRATCH
for seed in "$@"; do
  for id in C01 C02 C03 C04 C05 C06 C07 C08 C09 C10 C11 C12 C13 C14 C15 C16 C17 C18 C19 C20; do
    T0=$(date +%s)
    OUT=$(cd /verif && VERIF_SEED=$seed ./check.sh $id $TIER 2>&1); RC=$?
    T1=$(date +%s)
    echo "seed=$seed $id rc=$RC $((T1-T0))s $(echo "$OUT" | grep -v '^KNOWN' | tail -1 | cut -c1-160)"
    if [ $RC -ne 0 ]; then echo "$OUT" | grep -A3 VIOLATION | cut -c1-600; fi
  done
done
